"""Shared harness: compile helper, generated-module loader, sharded worker driver, evidence,
known findings, replay.  (DESIGN.md 1.5, 1.9)"""
import os
import sys
import io
import re
import json
import time
import shutil
import atexit
import hashlib
import tempfile
import contextlib
import subprocess
import importlib.util
from collections import Counter
from concurrent.futures import ThreadPoolExecutor

VERIF = os.path.dirname(os.path.dirname(os.path.abspath(__file__)))
REPO = os.environ.get('VERIF_REPO', '/repo')
PY = os.environ.get('VERIF_PY', '/venv/bin/python')
NPROC = int(os.environ.get('VERIF_JOBS', '16'))


def repo_on_path():
    if not sys.path or sys.path[0] != REPO:
        sys.path.insert(0, REPO)


# --------------------------------------------------------------------------- generated sources
_workdir = None
_modcount = 0


def workdir():
    global _workdir
    if _workdir is None:
        _workdir = tempfile.mkdtemp(prefix='cohdl-verif-')
        atexit.register(shutil.rmtree, _workdir, True)
    return _workdir


def load_source(src, stem='gen'):
    """CoHDL uses inspect.getsource, so generated designs must live in real files."""
    global _modcount
    _modcount += 1
    name = f"{stem}_{os.getpid()}_{_modcount}"
    path = os.path.join(workdir(), name + '.py')
    with open(path, 'w') as f:
        f.write(src)
    spec = importlib.util.spec_from_file_location(name, path)
    mod = importlib.util.module_from_spec(spec)
    sys.modules[name] = mod
    spec.loader.exec_module(mod)
    return mod


def unload(mod):
    sys.modules.pop(mod.__name__, None)
    try:
        os.unlink(mod.__file__)
    except OSError:
        pass


# --------------------------------------------------------------------------- compile
class Rejected(Exception):
    def __init__(self, etype, msg, stdout=''):
        super().__init__(f"{etype}: {msg}")
        self.etype = etype
        self.msg = msg
        self.stdout = stdout


class Compiled:
    def __init__(self, text, lib):
        self.text = text
        self.lib = lib
        self._temps = None

    @property
    def temps(self):
        if self._temps is None:
            self._temps = temporaries_of(self.lib)
        return self._temps

    def sim(self, **kw):
        from .vsim import Sim
        return Sim(self.text, temporaries=self.temps, **kw)


class CompileTimeout(BaseException):
    """the compiler did not finish within the watchdog budget (some program shapes make its open-block
    algorithm exponential): inconclusive for that design, never a violation"""


def _alarm(signum, frame):
    raise CompileTimeout()


def compile_top(cls, timeout=20, **kw):
    """Any exception out of the compiler is a rejection; its stdout diagnostics are captured."""
    import signal
    import threading
    repo_on_path()
    from cohdl import std
    buf = io.StringIO()
    use_alarm = threading.current_thread() is threading.main_thread()
    if use_alarm:
        old = signal.signal(signal.SIGALRM, _alarm)
        signal.setitimer(signal.ITIMER_REAL, timeout)
    try:
        with contextlib.redirect_stdout(buf):
            lib = std.VhdlCompiler.to_vhdl_library(cls, **kw)
            text = str(lib.write())
    except (KeyboardInterrupt, SystemExit):
        raise
    except CompileTimeout:
        raise Rejected('CompileTimeout', f'compiler watchdog ({timeout}s)', buf.getvalue()) from None
    except BaseException as e:      # noqa
        if isinstance(e, (NameError, ImportError)) and e.__traceback__ is not None:
            # raised by a plain-Python statement of the generated source itself (architecture body executed by CPython):
            # a generator bug, not a verdict of the compiler -- must not be counted as a rejection
            tb = e.__traceback__
            while tb.tb_next is not None:
                tb = tb.tb_next
            if 'cohdl-verif-' in tb.tb_frame.f_code.co_filename:
                raise RuntimeError(f"generated source is not valid Python: {type(e).__name__}: {e}") from None
        raise Rejected(type(e).__name__, str(e), buf.getvalue()) from None
    finally:
        if use_alarm:
            signal.setitimer(signal.ITIMER_REAL, 0)
            signal.signal(signal.SIGALRM, old)
    return Compiled(text, lib)


def temporaries_of(lib):
    """{(entity_lower, process_label_lower, name_lower)} for every compiler Temporary declared as a
    process variable, read from the back end's own declaration tables."""
    repo_on_path()
    from cohdl import Temporary
    from cohdl._compiler.backend.vhdl import _vhdl_repr as vr
    out = set()

    def walk(inst, ename):
        if isinstance(inst, vr.Block):
            for sb in inst._subblocks:
                walk(sb, ename)
        elif isinstance(inst, vr.Process):
            pname = inst._scope.lookup_name(inst)
            for decl in inst._scope._declarations.values():
                if isinstance(decl.obj, Temporary):
                    out.add((ename.lower(), pname.lower(), decl.name.lower()))

    for ent in lib._entities:
        arch = ent._arch
        ename = arch.entity_name()
        for inst in arch._instances:
            walk(inst, ename)
    return out


# --------------------------------------------------------------------------- case results
def result(sig=None, viol=None, cnt=None, sample=None, inconclusive=None, evals=1):
    return {'sig': sig, 'viol': viol or [], 'cnt': cnt or {}, 'sample': sample,
            'inconclusive': inconclusive, 'evals': evals}


def violation(mech, detail, **extra):
    d = {'mech': mech, 'detail': str(detail)[:2000]}
    d.update(extra)
    return d


def digest(*parts):
    h = hashlib.sha1()
    for p in parts:
        h.update(repr(p).encode())
    return h.hexdigest()[:16]


# --------------------------------------------------------------------------- driver
def load_known():
    p = os.path.join(VERIF, 'known_findings.json')
    if not os.path.exists(p):
        return []
    return json.load(open(p)).get('findings', [])


def match_known(known, pid, v):
    for k in known:
        if k['property'] != pid or k['mechanism'] != v['mech']:
            continue
        rx = k.get('detail_regex')
        if rx and not re.search(rx, v['detail'], re.S):
            continue
        return k
    return None


def _run_worker(args):
    modname, payload, idx, timeout, tmpdir = args
    inp = os.path.join(tmpdir, f"in_{idx}.json")
    outp = os.path.join(tmpdir, f"out_{idx}.json")
    with open(inp, 'w') as f:
        json.dump(payload, f)
    env = dict(os.environ)
    env['PYTHONDONTWRITEBYTECODE'] = '1'
    env.setdefault('PYTHONHASHSEED', '0')
    env['PYTHONPATH'] = VERIF
    t0 = time.time()
    try:
        p = subprocess.run([PY, '-m', 'vlib.worker', modname, inp, outp], cwd=VERIF, env=env,
                           stdout=subprocess.PIPE, stderr=subprocess.PIPE, timeout=timeout)
    except subprocess.TimeoutExpired:
        return {'fail': f"worker {idx} timed out after {timeout}s", 'results': []}
    if p.returncode != 0 or not os.path.exists(outp):
        return {'fail': f"worker {idx} exit {p.returncode}: {p.stderr.decode(errors='replace')[-1500:]}", 'results': []}
    with open(outp) as f:
        res = json.load(f)
    res['wall'] = time.time() - t0
    return res


def run_check(mod, tier, seed, replay=None):
    """mod: a check module with PID, gen_cases(tier, seed), run_case(case), and optional
    REQUIRE (minimum counters), RULE (text), LEVEL, finalize(agg) -> extra coverage dict"""
    pid = mod.PID
    t0 = time.time()
    known = load_known()
    if replay:
        rec = json.load(open(replay))
        repo_on_path()
        r = mod.run_case(rec['case'])
        for v in r['viol']:
            print(f"REPLAY violation mech={v['mech']} detail={v['detail']}")
        print(f"replayed {replay}: {len(r['viol'])} violation(s); counters {r['cnt']}")
        return 1 if r['viol'] else 0
    cases = list(mod.gen_cases(tier, seed))
    nshards = max(1, min(len(cases), NPROC * getattr(mod, 'SHARDS_PER_CORE', 2)))
    shards = [[] for _ in range(nshards)]
    for i, c in enumerate(cases):
        shards[i % nshards].append(c)
    modname = mod.__name__
    timeout = getattr(mod, 'WORKER_TIMEOUT', {'quick': 600, 'thorough': 3600})[tier]
    tmpdir = tempfile.mkdtemp(prefix='cohdl-verif-drv-')
    try:
        jobs = [(modname, {'cases': sh, 'tier': tier, 'seed': seed}, i, timeout, tmpdir) for i, sh in enumerate(shards)]
        with ThreadPoolExecutor(NPROC) as ex:
            outs = list(ex.map(_run_worker, jobs))
    finally:
        shutil.rmtree(tmpdir, True)
    fails = [o['fail'] for o in outs if o.get('fail')]
    sigs = set()
    cnt = Counter()
    evals = 0
    samples = []
    viols = []
    inconcl = []
    for o in outs:
        for case, r in o['results']:
            evals += r.get('evals', 1)
            if r['sig'] is not None:
                if isinstance(r['sig'], list):
                    sigs.update(r['sig'])
                else:
                    sigs.add(r['sig'])
            cnt.update(r['cnt'])
            if r['sample'] is not None and len(samples) < 12:
                samples.append(r['sample'])
            for v in r['viol']:
                viols.append((case, v))
            if r['inconclusive']:
                inconcl.append(r['inconclusive'])
    # classify violations
    unlisted = []
    listed = {}
    for case, v in viols:
        k = match_known(known, pid, v)
        if k is None:
            unlisted.append((case, v))
        else:
            listed.setdefault(k['id'], [k, 0, v])
            listed[k['id']][1] += 1
    for kid, (k, n, v) in sorted(listed.items()):
        print(f"KNOWN-FINDING: property={pid} {kid}: {k['description']} (seen {n}x, e.g. {v['detail'][:160]!r})")
    rdir = os.path.join(VERIF, 'replay', pid)
    shutil.rmtree(rdir, True)
    seen_mech = Counter()
    for case, v in unlisted:
        seen_mech[v['mech']] += 1
        if seen_mech[v['mech']] > int(os.environ.get('VERIF_MAXPRINT', '5')):
            continue
        os.makedirs(rdir, exist_ok=True)
        path = os.path.join(rdir, f"{v['mech'].replace('/', '_')}_{seen_mech[v['mech']]}.json")
        rcase = dict(case)
        if isinstance(v.get('replay_case'), dict):
            rcase.update(v.pop('replay_case'))       # whatever the check needs to re-run exactly this design
        with open(path, 'w') as f:
            json.dump({'property': pid, 'mech': v['mech'], 'detail': v['detail'], 'violation': v,
                       'case': rcase, 'tier': tier, 'seed': seed}, f, indent=1, default=str)
        print(f"VIOLATION property={pid} replay={path}")
        print(f"  mechanism={v['mech']} detail={v['detail'][:400]}")
    if len(unlisted) > sum(min(5, n) for n in seen_mech.values()):
        print(f"  ({len(unlisted)} unlisted violations in total: {dict(seen_mech)})")
    extra = {}
    if hasattr(mod, 'finalize'):
        extra = mod.finalize(cnt, tier) or {}
    # reach requirements
    missing = []
    for k, n in getattr(mod, 'REQUIRE', {}).get(tier, {}).items():
        if cnt.get(k, 0) < n:
            missing.append(f"{k}={cnt.get(k, 0)}<{n}")
    ev = {
        'property_id': pid, 'tier': tier, 'seed': seed, 'level': getattr(mod, 'LEVEL', 'exploration'),
        'coverage': {
            'evaluations': evals,
            'distinct_nontrivial': len(sigs),
            'rule': getattr(mod, 'RULE', ''),
            'samples': samples or [{'note': 'no sample recorded'}],
            'counters': dict(sorted(cnt.items())),
            'known_findings_seen': {k: n for k, (_, n, _) in listed.items()},
            'worker_failures': fails,
            'inconclusive_cases': len(inconcl),
            'inconclusive_examples': inconcl[:5],
            **extra,
        },
        'assumptions': getattr(mod, 'ASSUMPTIONS', []),
        'wall_s': round(time.time() - t0, 2),
        'violations': len(unlisted),
    }
    if not os.environ.get('VERIF_NOEVIDENCE'):     # (mutation drills must not overwrite the evidence of /repo)
        os.makedirs(os.path.join(VERIF, 'evidence'), exist_ok=True)
        with open(os.path.join(VERIF, 'evidence', f"{pid}.json"), 'w') as f:
            json.dump(ev, f, indent=1, default=str)
    print(f"{pid} {tier} seed={seed}: cases={len(cases)} evaluations={evals} distinct_nontrivial={len(sigs)} "
          f"violations={len(unlisted)} known={sum(n for _, n, _ in listed.values())} wall={ev['wall_s']}s")
    keys = [k for k in sorted(cnt) if not k.startswith('_')]
    print("  observed: " + ', '.join(f"{k}={cnt[k]}" for k in keys[:60]))
    if unlisted:
        return 1
    herr = cnt.get('_harness_errors', 0)
    if herr:
        fails = fails + [f"{herr} case(s) crashed inside the harness, e.g. {inconcl[0][:300] if inconcl else ''}"]
    if fails or missing or len(sigs) < 2:
        for f_ in fails:
            print(f"INCONCLUSIVE property={pid} {f_}")
        if missing:
            print(f"INCONCLUSIVE property={pid} monitors not reached: {', '.join(missing)}")
        if len(sigs) < 2:
            print(f"INCONCLUSIVE property={pid} fewer than 2 distinct non-trivial cases")
        return 2
    return 0
