"""Seeded generators of design specs for vlib.progen (sequential bodies for C03, coroutine bodies for
C01, reset variants for C04).  Everything is derived from a random.Random instance, so a case is
re-derivable from its seed."""
from . import progen as pg


class Obj:
    def __init__(self, src, kind, w, name, role):
        self.src, self.kind, self.w, self.name, self.role = src, kind, w, name, role


class Env:
    """what a context may read / write"""

    def __init__(self):
        self.read = []      # Obj
        self.wsig = []      # signals (ports / local) this context drives with <<=
        self.wpush = []     # signals this context drives with ^=
        self.wvar = []      # variables of this context
        self.warr = []      # (Obj array, count, is_signal)
        self.wbool = []     # Variable[bool] objects of this context (only read in conditions, only written with bool(..))
        self.locals = []    # single-assignment local names (Obj)
        self.counter = [0]

    def fresh(self, pre):
        self.counter[0] += 1
        return f"{pre}{self.counter[0]}"


class ExprGen:
    def __init__(self, rnd, env):
        self.rnd = rnd
        self.env = env

    def readable(self, pred):
        return [o for o in self.env.read + self.env.locals if pred(o)]

    def const(self, kind, w):
        r = self.rnd
        if kind == 'bit':
            return r.choice(['Bit(0)', 'Bit(1)', 'True', 'False'])
        v = r.choice([0, 1, (1 << w) - 1, r.randrange(1 << w)])
        if kind == 'u':
            return r.choice([f"Unsigned[{w}]({v})", str(v)])
        if kind == 's':
            n = v - (1 << w) if (v >> (w - 1)) & 1 else v
            return r.choice([f"Signed[{w}]({n})", f"({n})" if n < 0 else str(n)])
        return r.choice([f"BitVector[{w}]('{v:0{w}b}')", f"'{v:0{w}b}'"])

    def typed_const(self, kind, w):
        r = self.rnd
        if kind == 'bit':
            return r.choice(['Bit(0)', 'Bit(1)'])
        v = r.choice([0, 1, (1 << w) - 1, r.randrange(1 << w)])
        if kind == 'u':
            return f"Unsigned[{w}]({v})"
        if kind == 's':
            n = v - (1 << w) if (v >> (w - 1)) & 1 else v
            return f"Signed[{w}]({n})"
        return f"BitVector[{w}]('{v:0{w}b}')"

    def expr(self, kind, w, depth=2, exact=False, typed=False):
        """source of an expression assignable to a target of type (kind, w);
        exact: the expression has exactly that type; typed: never a bare Python literal"""
        r = self.rnd
        if kind == 'bit':
            return self.bit(depth)
        if depth <= 0 or r.random() < 0.25:
            if kind in ('u', 's'):
                c = self.readable(lambda o: o.kind == kind and (o.w == w if exact else o.w <= w))
            else:
                c = self.readable(lambda o: o.kind == kind and o.w == w)
            if c and r.random() < 0.8:
                return r.choice(c).src
            return self.typed_const(kind, w) if (typed or exact) else self.const(kind, w)
        form = r.choice(['arith', 'arith', 'bitwise', 'inv', 'slice', 'concat', 'view', 'ifexp', 'leaf'])
        if form == 'leaf':
            return self.expr(kind, w, 0, exact, typed)
        if kind in ('u', 's'):
            if form == 'arith':
                a = self.expr(kind, w, depth - 1, exact, True)
                if r.random() < 0.35:
                    k = r.randrange(1, max(2, (1 << (w - 1)) - 1)) if w > 1 else 0
                    return f"({a} {r.choice('+-')} {k})"
                wb = w if exact else r.randint(1, w)
                b = self.expr(kind, wb, depth - 1, False if not exact else False, True)
                return f"({a} {r.choice('+-')} {b})"
            if form == 'bitwise':
                a = self.expr(kind, w, depth - 1, True, True)
                b = self.expr(kind, w, depth - 1, True, True)
                return f"({a} {r.choice('&|^')} {b})"
            if form == 'inv':
                return f"(~{self.expr(kind, w, depth - 1, True, True)})"
            if form in ('slice', 'concat', 'view'):
                bv = self.expr('bv', w, depth - 1, True, True)
                return f"{bv}.{'unsigned' if kind == 'u' else 'signed'}"
            if form == 'ifexp':
                a = self.expr(kind, w, depth - 1, True, True)
                b = self.expr(kind, w, depth - 1, True, True)
                return f"({a} if {self.cond(depth - 1)} else {b})"
        else:   # bv
            if form in ('arith', 'view'):
                k2 = r.choice(['u', 's'])
                return f"{self.expr(k2, w, depth - 1, True, True)}.bitvector"
            if form == 'bitwise':
                a = self.expr('bv', w, depth - 1, True, True)
                b = self.expr('bv', w, depth - 1, True, True)
                return f"({a} {r.choice('&|^')} {b})"
            if form == 'inv':
                return f"(~{self.expr('bv', w, depth - 1, True, True)})"
            if form == 'slice':
                c = self.readable(lambda o: o.kind in ('bv', 'u', 's') and o.w > w)
                if c:
                    o = r.choice(c)
                    lo = r.randrange(o.w - w + 1)
                    return f"{o.src}[{lo + w - 1}:{lo}]"
            if form == 'concat' and w >= 2:
                wa = r.randint(1, w - 1)
                ka = r.choice(['bv', 'u', 's', 'bit']) if wa == 1 else r.choice(['bv', 'u', 's'])
                kb = r.choice(['bv', 'u', 's', 'bit']) if w - wa == 1 else r.choice(['bv', 'u', 's'])
                a = self.bit(depth - 1, True) if ka == 'bit' else self.expr(ka, wa, depth - 1, True, True)
                b = self.bit(depth - 1, True) if kb == 'bit' else self.expr(kb, w - wa, depth - 1, True, True)
                return f"({a} @ {b})"
            if form == 'ifexp':
                a = self.expr('bv', w, depth - 1, True, True)
                b = self.expr('bv', w, depth - 1, True, True)
                return f"({a} if {self.cond(depth - 1)} else {b})"
        return self.expr(kind, w, 0, exact, typed)

    def bit(self, depth=2, typed=False):
        r = self.rnd
        c = self.readable(lambda o: o.kind == 'bit')
        if depth <= 0 or r.random() < 0.3:
            if c and r.random() < 0.85:
                return r.choice(c).src
            return r.choice(['Bit(0)', 'Bit(1)'])
        form = r.choice(['leaf', 'index', 'bitwise', 'inv', 'cmp'])
        if form == 'index':
            v = self.readable(lambda o: o.kind in ('bv', 'u', 's'))
            if v:
                o = r.choice(v)
                return f"{o.src}[{r.randrange(o.w)}]"
        if form == 'bitwise':
            # a constant Bit as the *left* operand of a run-time Bit is an (ungraceful) rejection in CoHDL
            left = r.choice(c).src if c else None
            if left is not None:
                return f"({left} {r.choice('&|^')} {self.bit(depth - 1, True)})"
        if form == 'inv':
            return f"(~{self.bit(depth - 1, True)})"
        if form == 'cmp' and not typed:
            return self.compare(depth - 1)     # bool -> Bit conversion on assignment
        if c:
            return r.choice(c).src
        return 'Bit(1)'

    def compare(self, depth=1):
        r = self.rnd
        v = self.readable(lambda o: o.kind in ('u', 's'))
        if not v:
            b = self.readable(lambda o: o.kind == 'bit')
            return f"({r.choice(b).src} == Bit({r.randrange(2)}))" if b else "(Bit(1) == Bit(1))"
        o = r.choice(v)
        op = r.choice(['==', '!=', '<', '<=', '>', '>='])
        if r.random() < 0.5:
            hi = (1 << o.w) - 1 if o.kind == 'u' else (1 << (o.w - 1)) - 1
            lo = 0 if o.kind == 'u' else -(1 << (o.w - 1))
            k = r.randint(lo, hi)
            return f"({o.src} {op} {k})" if k >= 0 else f"({o.src} {op} ({k}))"
        other = self.expr(o.kind, o.w, depth, False, True)
        return f"({o.src} {op} {other})"

    def cond(self, depth=1):
        r = self.rnd
        form = r.choice(['bit', 'bit', 'cmp', 'not', 'and', 'or']) if depth > 0 else r.choice(['bit', 'cmp'])
        if form == 'bit':
            c = self.readable(lambda o: o.kind in ('bit', 'bool'))
            if c:
                return r.choice(c).src
            form = 'cmp'
        if form == 'cmp':
            return self.compare(depth)
        if form == 'not':
            return f"(not {self.cond(depth - 1)})"
        return f"({self.cond(depth - 1)} {form} {self.cond(depth - 1)})"


# ----------------------------------------------------------------------------------------------
class BodyGen:
    def __init__(self, rnd, env, coro=False, allow=None):
        self.rnd = rnd
        self.env = env
        self.eg = ExprGen(rnd, env)
        self.coro = coro
        self.helpers = []
        self.subs = []
        self.marker = None        # (var Obj, sig Obj)
        self.mk = 1
        self.allow = allow or {}
        self.features = set()
        self.n_exits = 0

    # ---- plain statements
    def assign_stmt(self):
        r = self.rnd
        e = self.env
        choices = []
        if e.wsig:
            choices += ['sig', 'sig', 'sigslice']
        if e.wvar:
            choices += ['var', 'var', 'varslice']
        if e.wpush:
            choices += ['push']
        if e.warr:
            choices += ['arr', 'arr']
        if not choices:
            return None
        k = r.choice(choices)
        if k == 'sig':
            t = r.choice(e.wsig)
            self.features.add('sig')
            if r.random() < 0.15:
                return ('sig', t.src, r.choice(['Null', 'Full']) if t.kind != 'bit' else r.choice(['True', 'False']))
            if r.random() < 0.2:
                tgt = t.src + '.next' if False else t.src
            return ('sig', t.src, self.eg.expr(t.kind, t.w))
        if k == 'var':
            t = r.choice(e.wvar)
            self.features.add('var')
            return ('var', t.src, self.eg.expr(t.kind, t.w))
        if k == 'push':
            t = r.choice(e.wpush)
            self.features.add('push')
            return ('push', t.src, self.eg.expr(t.kind, t.w))
        if k in ('sigslice', 'varslice'):
            pool = [t for t in (e.wsig if k == 'sigslice' else e.wvar) if t.kind != 'bit' and t.w >= 2]
            if not pool:
                return self.assign_stmt() if r.random() < 0.5 else None
            t = r.choice(pool)
            self.features.add('slice-target')
            if r.random() < 0.4:
                i = r.randrange(t.w)
                return ('sig' if k == 'sigslice' else 'var', f"{t.src}[{i}]", self.eg.bit(1, False))
            hi = r.randrange(t.w)
            lo = r.randrange(hi + 1)
            return ('sig' if k == 'sigslice' else 'var', f"{t.src}[{hi}:{lo}]", self.eg.expr('bv', hi - lo + 1, 1, True, True))
        if k == 'arr':
            a, n, is_sig = r.choice(e.warr)
            self.features.add('array-target')
            idx = self.index_src(n)
            return ('sig' if is_sig else 'var', f"{a.src}[{idx}]", self.eg.expr(a.kind, a.w, 1))
        return None

    def index_src(self, n):
        r = self.rnd
        c = self.eg.readable(lambda o: o.kind == 'u' and (1 << o.w) <= n and o.role != 'const')
        if c and r.random() < 0.7:
            self.features.add('runtime-index')
            return r.choice(c).src
        return str(r.randrange(n))

    def marker_stmts(self):
        if self.marker is None:
            return []
        v, s = self.marker
        self.mk += 1
        k = self.mk
        return [('var', v.src, f"({v.src} + {k})"), ('sig', s.src, v.src)]

    def local_assign(self):
        r = self.rnd
        kind, w = r.choice([('u', 3), ('bit', None), ('bv', 2), ('u', 2)])
        name = self.env.fresh('t')
        src = self.eg.expr(kind, w, 2, True, True) if kind != 'bit' else self.eg.bit(2, True)
        if src in ('Bit(0)', 'Bit(1)') or src.startswith(('Unsigned[', 'BitVector[', 'Signed[')):
            role = 'const'
        else:
            role = 'local'
        return ('assign', name, src), Obj(name, kind, w, name, role)

    def helper(self):
        """value-returning helper with returns inside nested branches"""
        r = self.rnd
        name = self.env.fresh('hf')
        kind, w = r.choice([('u', 3), ('u', 2), ('bv', 2)])
        saved_read, saved_loc = self.env.read, self.env.locals
        px = Obj('px', 'bit', None, 'px', 'param')
        py = Obj('py', kind, w, 'py', 'param')
        self.env.read = saved_read + [px, py]
        self.env.locals = []
        eg = ExprGen(r, self.env)

        def ret():
            return ('ret', eg.expr(kind, w, 1, True, True))
        arms = [(r.choice(['px', eg.cond(1)]), [ret()])]
        for _ in range(r.randrange(3)):
            if r.random() < 0.3:
                arms.append((eg.cond(1), [('if', [(eg.cond(0), [ret()])], [ret()])]))
            else:
                arms.append((eg.cond(1), [ret()]))
        if r.random() < 0.5:
            body = [('if', arms, [ret()])]
        else:
            body = [('if', arms, None), ret()]
        self.env.read, self.env.locals = saved_read, saved_loc
        self.helpers.append({'name': name, 'params': 'px, py', 'body': body})
        self.features.add('helper-return')
        return name, kind, w

    # ---- structured statements (sequential)
    def seq_body(self, size, depth):
        r = self.rnd
        out = []
        while size > 0:
            form = r.choice(['assign'] * 5 + ['if'] * 3 + ['match', 'forbreak', 'helper', 'local'] + (['matchret'] if r.random() < 0.15 else [])
                            + (['boolcap', 'boolvar'] if self.env.wbool else []))
            if depth <= 0 and form in ('if', 'match', 'forbreak'):
                form = 'assign'
            # every early-exit construct multiplies the compiler's open blocks: keep their number small,
            # otherwise compile time and memory grow exponentially
            if form in ('forbreak', 'helper'):
                if self.n_exits >= 3:
                    form = 'assign'
                else:
                    self.n_exits += 1
            if form == 'assign':
                s = self.assign_stmt()
                if s:
                    out.append(s)
                size -= 1
            elif form == 'boolvar':
                out.append(('var', r.choice(self.env.wbool).src, f"bool({self.eg.cond(1)})"))
                self.features.add('bool-variable')
                size -= 1
            elif form == 'boolcap' and depth == self.top_depth:
                # the value of a Variable[bool] is captured, the variable is overwritten, the captured value is used afterwards
                vb = r.choice(self.env.wbool)
                name = self.env.fresh('t')
                out.append(('assign', name, f"bool({vb.src})"))
                if r.random() < 0.8:
                    out.append(('var', vb.src, f"bool({self.eg.cond(1)})"))
                self.env.locals.append(Obj(name, 'bool', None, name, 'local'))
                if r.random() < 0.7:
                    st = self.assign_stmt()
                    if st:
                        out.append(('if', [(name if r.random() < 0.6 else f"(not {name})", [st])], None))
                self.features.add('bool-variable-captured')
                size -= 2
            elif form == 'local' and depth == self.top_depth:
                st, o = self.local_assign()
                out.append(st)
                self.env.locals.append(o)
                self.features.add('local-temp')
                size -= 1
            elif form == 'if':
                n = r.randint(1, 3)
                arms = []
                for _ in range(n):
                    arms.append((self.eg.cond(1), self.nested(lambda: self.seq_body(r.randint(1, 2), depth - 1))))
                els = self.nested(lambda: self.seq_body(r.randint(1, 2), depth - 1)) if r.random() < 0.6 else None
                out.append(('if', arms, els))
                self.features.add('if' if n == 1 else 'elif')
                size -= 2
            elif form == 'match':
                subj = self.eg.readable(lambda o: o.kind in ('u', 'bv') and o.w <= 2 and o.role not in ('const',))
                if not subj:
                    continue
                o = r.choice(subj)
                vals = r.sample(range(1 << o.w), r.randint(1, 1 << o.w))
                arms = []
                for v in vals:
                    pat = str(v) if o.kind == 'u' else f"'{v:0{o.w}b}'"
                    if r.random() < 0.03:
                        # a guarded case (`case 1 if cond:`): taken only when the guard holds, or the design is rejected
                        pat += f" if {self.eg.cond(1)}"
                        self.features.add('match-guard')
                    arms.append((pat, self.nested(lambda: self.seq_body(r.randint(1, 2), depth - 1))))
                d = self.nested(lambda: self.seq_body(1, depth - 1)) if r.random() < 0.6 else None
                out.append(('match', o.src, arms, d))
                self.features.add('match' + ('-default' if d else ''))
                size -= 2
            elif form == 'matchret':
                subj = self.eg.readable(lambda o: o.kind in ('u', 'bv') and o.w <= 2 and o.role not in ('const',))
                if not subj or depth != self.top_depth:
                    continue
                o = r.choice(subj)
                vals = r.sample(range(1 << o.w), r.randint(1, (1 << o.w) - 1))
                arms = []
                for v in vals:
                    pat = str(v) if o.kind == 'u' else f"'{v:0{o.w}b}'"
                    arms.append((pat, self.nested(lambda: self.seq_body(1, 0)) + [('ret', None)]))
                # every case returns, there is no default: the statements behind the match run when no case matches
                out.append(('match', o.src, arms, None))
                self.features.add('match-all-cases-return')
                size -= 2
            elif form == 'forbreak':
                n = r.randint(2, 4)
                if not self.env.wsig:
                    continue
                t = r.choice(self.env.wsig)
                # CoHDL limitation: the list items of a traced for-loop must be plain objects (an expression there
                # becomes a temporary that the definite-assignment check rejects), so only leaves are used
                conds = self.eg.readable(lambda o: o.kind == 'bit' and o.role != 'const')
                vals = self.eg.readable(lambda o: o.kind == t.kind and o.w == t.w and o.role not in ('arrelem',))
                if not conds:
                    continue

                def item():
                    v = r.choice(vals).src if vals and r.random() < 0.7 else self.eg.typed_const(t.kind, t.w)
                    return f"({r.choice(conds).src}, {v})"
                els = [('sig', t.src, self.eg.expr(t.kind, t.w, 1))] if r.random() < 0.6 else None
                if els is not None and r.random() < 0.12:
                    n = 0                     # empty iterable: only the else block runs
                    self.features.add('for-empty-else')
                items = ', '.join(item() for _ in range(n))
                lv_c, lv_v = self.env.fresh('fc'), self.env.fresh('fv')
                body = [('sig', t.src, lv_v)]
                out.append(('forbreak', f"[{items}]", f"{lv_c}, {lv_v}", lv_c, body, els, False))
                self.features.add('for-break' + ('-else' if els else ''))
                size -= 2
            elif form == 'helper':
                if not self.env.wsig:
                    continue
                if self.helpers and r.random() < 0.5:
                    h = r.choice(self.helpers)
                    name, kind, w = h['name'], h['_kind'], h['_w']
                else:
                    name, kind, w = self.helper()
                    self.helpers[-1]['_kind'] = kind
                    self.helpers[-1]['_w'] = w
                tg = [t for t in self.env.wsig if (t.kind == kind and (t.w == w or (kind == 'u' and t.w >= w)))]
                if not tg:
                    continue
                t = r.choice(tg)
                out.append(('sig', t.src, f"{name}({self.eg.bit(1, True)}, {self.eg.expr(kind, w, 1, True, True)})"))
                size -= 1
        return out

    def nested(self, f):
        """locals defined inside a branch must not leak to later code"""
        saved = list(self.env.locals)
        try:
            return f()
        finally:
            self.env.locals = saved

    top_depth = 2
    call_helpers = None

    # ---- coroutine bodies
    def simple(self):
        """a non-suspending statement list: assignments (+ marker)"""
        r = self.rnd
        out = []
        for _ in range(r.randint(1, 2)):
            s = self.assign_stmt()
            if s:
                out.append(s)
        if r.random() < 0.7:
            out += self.marker_stmts()
        return out

    def coro_body(self, size, depth, in_loop, ticked, in_sub=False):
        """returns (stmts, ticked_after) ; ticked: a clock boundary has certainly been crossed since the
        start of the current loop iteration (needed before `continue`)"""
        r = self.rnd
        out = []
        while size > 0:
            forms = ['simple'] * 3 + ['await'] * 3 + ['awaittrue', 'if', 'if', 'while', 'while']
            if r.random() < 0.25:
                forms += ['comment', 'whilefalse']
            if depth > 0 and r.random() < 0.3:
                forms += ['match', 'matchdefault']
            if r.random() < 0.2:
                forms += ['awaitcall']
            if r.random() < 0.12:
                forms += ['matchhalt', 'haltif']
            if in_loop:
                forms += ['break', 'continue'] if ticked else ['break']
            if depth > 0 and r.random() < (0.3 if not out and not in_loop else 0.08):
                forms = ['wtshape']
            if self.allow.get('subs', True) and not in_sub and depth > 0:
                forms += ['awaitsub']
            if in_sub:
                forms += ['ret']
            form = r.choice(forms)
            if depth <= 0 and form in ('if', 'while'):
                form = 'await'
            if form == 'simple':
                out += self.simple()
                size -= 1
            elif form == 'await':
                out.append(('await', self.eg.cond(1)))
                self.features.add('await')
                ticked = True
                size -= 1
            elif form == 'comment':
                out.append(('comment', f"note {r.randrange(100)}"))
                self.features.add('comment')
            elif form == 'whilefalse':
                # a loop whose condition is false at compile time (literally, or after folding a constant operand):
                # its body never runs, the loop entry still costs its clock unless it is the first action
                rc = self.eg.cond(0)
                cond = r.choice(['False', '(Unsigned[3](3) <= 0)', f"((Unsigned[3](3) <= 0) and {rc})", f"({rc} and (Unsigned[2](1) > 2))"])
                out.append(('while', cond, self.simple()))
                self.features.add('while-constant-false')
                size -= 1
            elif form in ('matchhalt', 'haltif'):
                # `await false` under a run-time condition halts the coroutine; nothing behind it may execute in that clock
                # or later.  'matchhalt': inside one case of a match whose other cases contain no transition at all
                halt = ('if', [(self.eg.cond(1), (self.simple() if r.random() < 0.4 else []) + [('awaitfalse',)])], None)
                subj = self.eg.readable(lambda o: o.kind in ('u', 'bv') and o.w is not None and o.w >= 2 and o.role in ('in', 'sig', 'out'))
                if form == 'matchhalt' and subj:
                    o = r.choice(subj)
                    ssrc, sk = (o.src, o.kind) if o.w == 2 else (f"{o.src}[1:0]", 'bv')
                    vals = r.sample(range(4), r.randint(1, 3))
                    hi = r.randrange(len(vals))
                    arms = []
                    for i, v in enumerate(vals):
                        b = ((self.simple() if r.random() < 0.5 else []) + [halt]) if i == hi else self.simple()
                        arms.append((str(v) if sk == 'u' else f"'{v:02b}'", b))
                    d = self.simple() if r.random() < 0.5 else None
                    out.append(('match', ssrc, arms, d))
                    self.features.add('halt-in-match-case')
                else:
                    out.append(halt)
                    self.features.add('halt-under-if')
                out += self.simple()
                size -= 2
            elif form == 'awaittrue':
                out.append(('awaittrue',))
                self.features.add('await-true')
                # `await true` as the very first action does not cross a clock boundary
                size -= 1
            elif form == 'if':
                n = r.randint(1, 2)
                arms = []
                t_all = True
                for _ in range(n):
                    b, t = self.coro_body(r.randint(1, 3), depth - 1, in_loop, ticked, in_sub)
                    arms.append((self.eg.cond(1), b))
                    t_all = t_all and t
                els = None
                if r.random() < 0.6:
                    els, t = self.coro_body(r.randint(1, 2), depth - 1, in_loop, ticked, in_sub)
                    t_all = t_all and t
                else:
                    t_all = t_all and ticked
                out.append(('if', arms, els))
                self.features.add('if-in-coroutine')
                ticked = t_all and ticked or (t_all and els is not None)
                size -= 2
            elif form == 'awaitcall':
                # `await fn()` where fn is a plain function with side effects that returns the signal to wait for: the side
                # effects happen once, before the wait state
                cands = self.eg.readable(lambda o: o.kind == 'bit' and o.role in ('in', 'sig', 'out'))
                if not cands or self.call_helpers is None or in_sub:
                    continue
                name = self.env.fresh('rq')
                self.call_helpers.append({'name': name, 'params': '', 'body': self.simple() + [('ret', r.choice(cands).src)]})
                out.append(('awaitcall', name))
                self.features.add('await-call-with-side-effects')
                ticked = True
                size -= 1
            elif form in ('match', 'matchdefault'):
                subj = self.eg.readable(lambda o: o.kind in ('u', 'bv') and o.w is not None and o.w >= 2 and o.role in ('in', 'sig', 'out'))
                if not subj:
                    continue
                o = r.choice(subj)
                ssrc, sk = (o.src, o.kind) if o.w == 2 else (f"{o.src}[1:0]", 'bv')
                vals = r.sample(range(4), r.randint(1, 3))
                arms = []
                t_all = True
                for v in vals:
                    if form == 'matchdefault':
                        b, t = self.simple(), ticked          # only the default case suspends
                    else:
                        b, t = self.coro_body(r.randint(1, 3), depth - 1, in_loop, ticked, in_sub)
                    arms.append((str(v) if sk == 'u' else f"'{v:02b}'", b))
                    t_all = t_all and t
                d = None
                if form == 'matchdefault':
                    d = [('await', self.eg.cond(1))] + self.simple()
                    self.features.add('match-await-only-in-default')
                elif r.random() < 0.5:
                    d, t = self.coro_body(r.randint(1, 2), depth - 1, in_loop, ticked, in_sub)
                    t_all = t_all and t
                else:
                    t_all = t_all and ticked
                out.append(('match', ssrc, arms, d))
                self.features.add('match-in-coroutine')
                ticked = t_all and ticked or (t_all and d is not None)
                size -= 2
            elif form == 'while':
                cond = None if r.random() < 0.25 else self.eg.cond(1)
                b, _ = self.coro_body(r.randint(1, 4), depth - 1, True, False, in_sub)
                if cond is None and not any(s[0] in ('break', 'ret') for s in flat(b)):
                    b.append(('if', [(self.eg.cond(0), [('break',)])], None))
                out.append(('while', cond, b))
                self.features.add('while' if cond else 'while-true')
                ticked = True      # entering or leaving a loop that was not first costs... be conservative:
                size -= 3
            elif form == 'wtshape':
                # `while True` skeletons whose exits and restarts sit in particular places: an exit before the first await of
                # the body, a `continue` after an await (plain, under `if`, or as a whole `match` case), nothing or little
                # after the loop
                b = []
                if r.random() < 0.6:
                    b += self.simple()
                leave = ('ret', None) if in_sub and r.random() < 0.3 else ('break',)
                if r.random() < 0.7:
                    b.append(('if', [(self.eg.cond(1), (self.simple() if r.random() < 0.4 else []) + [leave])], None))
                b.append(('await', self.eg.cond(1)))
                if r.random() < 0.5:
                    b += self.simple()
                subj = self.eg.readable(lambda o: o.kind in ('u', 'bv') and o.w is not None and o.w >= 2 and o.role in ('in', 'sig', 'out'))
                k = r.random()
                if k < 0.4 and subj:
                    o = r.choice(subj)
                    ssrc, sk = (o.src, o.kind) if o.w == 2 else (f"{o.src}[1:0]", 'bv')
                    vals = r.sample(range(4), r.randint(2, 3))
                    arms = []
                    for i, v in enumerate(vals):
                        body_i = [('continue',)] if i == 0 else (self.simple() + ([r.choice([('continue',), leave])] if r.random() < 0.3 else []))
                        arms.append((str(v) if sk == 'u' else f"'{v:02b}'", body_i))
                    r.shuffle(arms)
                    d = (self.simple() + ([leave] if r.random() < 0.3 else [])) if r.random() < 0.6 else None
                    b.append(('match', ssrc, arms, d))
                    self.features.add('continue-as-match-case')
                elif k < 0.75:
                    b.append(('if', [(self.eg.cond(1), (self.simple() if r.random() < 0.4 else []) + [('continue',)])], None))
                    self.features.add('continue-after-await')
                else:
                    b += self.simple()
                if r.random() < 0.5:
                    b += self.simple()
                    if r.random() < 0.4:
                        b.append(('await', self.eg.cond(1)))
                if r.random() < 0.4:
                    b.append(leave)
                elif not any(x[0] in ('break', 'ret') for x in flat(b)):
                    b.append(('if', [(self.eg.cond(0), [('break',)])], None))
                out.append(('while', None, b))
                self.features.add('while-true-shape')
                ticked = True
                size -= 3
                if r.random() < 0.5:
                    size = min(size, 1)      # often (almost) nothing after the loop: the process restarts right away
            elif form == 'break':
                out.append(('break',))
                self.features.add('break')
                return out, ticked
            elif form == 'continue':
                out.append(('continue',))
                self.features.add('continue')
                return out, ticked
            elif form == 'ret':
                out.append(('ret', None))
                self.features.add('return')
                return out, ticked
            elif form == 'awaitsub':
                name = self.sub(depth - 1)
                sub = [s for s in self.subs if s['name'] == name][0]
                args = ', '.join(self.sub_arg(k, w) for (_, k, w) in sub['_params'])
                res = None
                if sub['_ret'] is not None:
                    res = self.env.fresh('r')
                out.append(('awaitsub', name, args, res))
                if res is not None and self.env.wsig:
                    k, w = sub['_ret']
                    tg = [t for t in self.env.wsig if t.kind == k and (t.w or 0) >= (w or 0)]
                    if tg:
                        # the returned value must be consumed in the state in which it is produced
                        out.append(('sig', r.choice(tg).src, res))
                self.features.add('await-sub')
                size -= 2
        return out, ticked

    def sub_arg(self, k, w):
        # arguments are run-time objects: with a constant argument, conditions inside the sub-coroutine fold at compile time
        # (`if not (p0 < p0):`), and whether an await behind such a folded branch is still the "first action" is decided by
        # the folding, which the reference rendering does not model (seen in the thorough tier) - constants only as a last resort
        c = self.eg.readable(lambda o: o.kind == k and o.w == w and o.role in ('in', 'sig', 'out'))
        if c:
            return self.rnd.choice(c).src
        c = self.eg.readable(lambda o: o.kind == k and (o.w or 0) >= (w or 0) and o.role in ('in', 'sig', 'out'))
        if c and k != 'bit':
            o = self.rnd.choice(c)
            return f"{o.src}[{w - 1}:0].unsigned" if k == 'u' else f"{o.src}[{w - 1}:0]"
        return self.eg.typed_const(k, w)

    def sub(self, depth):
        r = self.rnd
        if self.subs and r.random() < 0.4:
            return r.choice(self.subs)['name']
        name = self.env.fresh('co')
        params = []
        pobjs = []
        for i in range(r.randrange(3)):
            k, w = r.choice([('bit', None), ('u', 2), ('u', 3)])
            pn = f"p{i}"
            params.append((pn, k, w))
            pobjs.append(Obj(pn, k, w, pn, 'param'))
        saved_read, saved_loc = self.env.read, self.env.locals
        self.env.read = saved_read + pobjs
        self.env.locals = []
        self.eg = ExprGen(r, self.env)
        body, _ = self.coro_body(r.randint(1, 4), depth, False, False, in_sub=True)
        def first_real(b):
            return next((st for st in b if st[0] != 'comment'), None)
        if first_real(body) is None or first_real(body)[0] == 'ret':
            # a sub-coroutine that finishes without doing anything (comments do not count) is not an "action": whether an
            # await that follows it at the very start of a process still counts as the first action is not settled by the
            # property statement, so such bodies are not generated
            body = self.simple() + body
            if first_real(body) is None or first_real(body)[0] == 'ret':
                body = [('var', self.marker[0].src, f"({self.marker[0].src} + 1)")] + body
        ret = None
        if r.random() < 0.4:
            ret = r.choice([('u', 3), ('u', 2), ('bit', None)])
            val = lambda: self.eg.typed_const(*ret)      # noqa

            def fix(stmts):
                for i, s in enumerate(stmts):
                    if s[0] == 'ret':
                        stmts[i] = ('ret', val())
                    elif s[0] == 'if':
                        for _, b in s[1]:
                            fix(b)
                        if s[2]:
                            fix(s[2])
                    elif s[0] == 'while':
                        fix(s[2])
            fix(body)
            if not body or body[-1][0] != 'ret':
                body.append(('ret', val()))
            self.features.add('return-value')
        self.env.read, self.env.locals = saved_read, saved_loc
        self.eg = ExprGen(r, self.env)
        self.subs.append({'name': name, 'params': ', '.join(p[0] for p in params), 'body': body,
                          '_params': params, '_ret': ret})
        return name


def flat(stmts):
    for s in stmts:
        yield s
        if s[0] == 'if':
            for _, b in s[1]:
                yield from flat(b)
            if s[2]:
                yield from flat(s[2])
        elif s[0] == 'while':
            yield from flat(s[2])
        elif s[0] == 'match':
            for _, b in s[2]:
                yield from flat(b)
            if s[3]:
                yield from flat(s[3])


def strip_private(d):
    if isinstance(d, dict):
        return {k: strip_private(v) for k, v in d.items() if not k.startswith('_')}
    if isinstance(d, list):
        return [strip_private(x) for x in d]
    return d


# ----------------------------------------------------------------------------------------------
def base_objects(rnd, n_bits=3, data=True, with_arr=True, n_outs=4):
    inputs = [(n, 'bit', None) for n in 'abc'[:n_bits]]
    if data:
        inputs.append(('d', 'u', 2))
    kinds = [('u', 3), ('u', 4), ('bv', 4), ('bit', None), ('s', 4), ('u', 2), ('bv', 3)]
    outs = []
    for i in range(n_outs):
        k, w = kinds[i] if i < 4 else rnd.choice(kinds)
        d = 0 if k == 'bit' else rnd.choice([0, 0, 1, (1 << w) - 1, rnd.randrange(1 << w)])
        outs.append((f"o{i}", k, w, d))
    return inputs, outs


def record_objects(rnd, outs):
    """optionally one std.Signal / std.NoresetSignal of a record type: its fields are separate (anonymous) signals, observed through
    tap outputs driven by a concurrent context.  returns (recs, field objects, tap statements); appends the tap ports to outs"""
    if rnd.random() >= 0.3:
        return [], [], []
    fields = [('f0', 'u', 3, rnd.randrange(8)), ('f1', 'bv', 4, rnd.randrange(16))]
    if rnd.random() < 0.5:
        fields.append(('f2', 'bit', None, rnd.randrange(2)))
    recs = [('r0', rnd.random() < 0.5, fields)]
    ro = [Obj(f"r0.{fn}", k, w, 'r0', 'sig') for fn, k, w, d in fields]
    taps = []
    for fn, k, w, d in fields:
        outs.append((f"tap_{fn}", k, w, None))
        taps.append(('sig', f"self.tap_{fn}", f"r0.{fn}"))
    return recs, ro, taps


def written_names(body, subs=(), helpers=()):
    """root names written by <<= / ^= / @= anywhere (for the model's reset and push bookkeeping)"""
    names = {'sig': set(), 'push': set(), 'var': set()}
    bodies = [body] + [s['body'] for s in subs] + [h['body'] for h in helpers]
    for b in bodies:
        for s in flat(b):
            if s[0] in ('sig', 'push', 'var'):
                root = s[1].split('[')[0].split('.')
                root = root[1] if root[0] == 'self' else root[0]
                names[s[0]].add(root)
            if s[0] == 'forbreak':
                for x in flat(s[4]):
                    if x[0] in ('sig', 'push', 'var'):
                        root = x[1].split('[')[0].split('.')
                        names[x[0]].add(root[1] if root[0] == 'self' else root[0])
                if s[5]:
                    for x in flat(s[5]):
                        if x[0] in ('sig', 'push', 'var'):
                            root = x[1].split('[')[0].split('.')
                            names[x[0]].add(root[1] if root[0] == 'self' else root[0])
    return names


def gen_seq_design(rnd, size=8, reset=None, step_cond=False, with_conc=True):
    """C03: one clocked (non-coroutine) context + optionally one concurrent context"""
    inputs, outs = base_objects(rnd, n_outs=rnd.randint(4, 6))
    if reset:
        inputs.append((reset['sig'], 'bit', None))
    sigs = [('s0', 'u', 3, rnd.randrange(8)), ('s1', 'bv', 4, rnd.randrange(16))]
    if rnd.random() < 0.3:
        # a signal whose declared default is *another object* of the same type (Signal[T](s0)): the default is the
        # value of that object at declaration time, later assignments to the source must not change it
        src = rnd.choice(sigs)
        sigs.append(('sd', src[1], src[2], src[3], False, src[0]))
    vars_ = [('v0', 'u', 3, rnd.randrange(8)), ('v1', 'bv', 4, 0)]
    arrs = []
    if rnd.random() < 0.6:
        arrs.append(('m0', 'u', 3, 4, rnd.random() < 0.6, [rnd.randrange(8) for _ in range(4)]))
    if rnd.random() < 0.3:
        # narrow elements: usable as `match` subjects (case selector on an array element)
        arrs.append(('m1', rnd.choice(['u', 'bv']), 2, 4, rnd.random() < 0.6, [rnd.randrange(4) for _ in range(4)]))
    ins = [Obj(f"self.{n}", k, w, n, 'in') for n, k, w in inputs if not (reset and n == reset['sig'])]
    oo = [Obj(f"self.{o[0]}", o[1], o[2], o[0], 'out') for o in outs]
    so = [Obj(o[0], o[1], o[2], o[0], 'sig') for o in sigs]
    vo = [Obj(o[0], o[1], o[2], o[0], 'var') for o in vars_]
    bo = []
    if rnd.random() < 0.4:
        vars_.append(('vb', 'bool', None, rnd.randrange(2)))
        bo = [Obj('vb', 'bool', None, 'vb', 'var')]
    recs, ro, taps = record_objects(rnd, outs)
    # partition the outputs between the clocked and the concurrent context
    n_conc = 1 if with_conc else 0
    conc_outs = oo[len(oo) - n_conc:] if n_conc else []
    seq_outs = oo[:len(oo) - n_conc] if n_conc else oo
    push_outs = [o for o in seq_outs[-1:]] if rnd.random() < 0.6 else []
    if push_outs and rnd.random() < 0.4:
        # a pushed signal falls back to its default after one step also when it is excluded from resets
        outs = [tuple(o) + (True,) if o[0] == push_outs[0].name else o for o in outs]
    plain_outs = [o for o in seq_outs if o not in push_outs]
    env = Env()
    env.read = ins + oo + so + vo + bo + ro
    env.wsig = plain_outs + so + ro
    env.wpush = push_outs
    env.wvar = vo
    env.wbool = bo
    for a in arrs:
        ao = Obj(a[0], a[1], a[2], a[0], 'arr')
        env.warr.append((ao, a[3], a[4]))
        for i in range(a[3]):
            env.read.append(Obj(f"{a[0]}[{i}]", a[1], a[2], a[0], 'arrelem'))
        env.read.append(Obj(f"{a[0]}[self.d]", a[1], a[2], a[0], 'arrelem'))
    bg = BodyGen(rnd, env)
    body = bg.seq_body(size, 2)
    if not body:
        body = [('sig', plain_outs[0].src, bg.eg.expr(plain_outs[0].kind, plain_outs[0].w))]
    wn = written_names(body, helpers=bg.helpers)
    ctx = {'kind': 'seq', 'name': 'proc', 'body': body, 'helpers': bg.helpers,
           'pushed': sorted(wn['push']), 'driven': sorted(wn['sig'] | wn['push'] | wn['var'])}
    if reset:
        ctx['reset'] = reset
    if step_cond:
        ctx['step_cond'] = rnd.choice(['self.a', 'self.b', '(self.a | self.b)'])
    ctxs = [ctx]
    if conc_outs:
        cenv = Env()
        cenv.read = ins + seq_outs + so
        cenv.wsig = conc_outs
        cbg = BodyGen(rnd, cenv)
        cbody = []
        for t in conc_outs:
            cbody.append(('sig', t.src, cbg.eg.expr(t.kind, t.w, 2)))
        ctxs.append({'kind': 'conc', 'name': 'logic', 'body': cbody, 'helpers': [], 'pushed': [], 'driven': [t.name for t in conc_outs]})
    if taps:
        ctxs.append({'kind': 'conc', 'name': 'taps', 'body': taps, 'helpers': [], 'pushed': [], 'driven': [t[1].split('.')[1] for t in taps]})
        bg.features.add('record-signal' + ('-noreset' if recs[0][1] else ''))
    spec = {'inputs': inputs, 'outs': outs, 'sigs': sigs, 'vars': vars_, 'arrs': arrs, 'recs': recs, 'ctxs': ctxs}
    if any(len(o) > 5 for o in sigs):
        bg.features.add('default-from-object')
    return spec, sorted(bg.features)


def gen_coro_design(rnd, size=8, reset=None, depth=3, step_cond=False, subs=True):
    """C01: one coroutine context"""
    inputs, outs = base_objects(rnd, n_bits=rnd.choice([2, 3]), data=rnd.random() < 0.4, n_outs=3)
    if reset:
        inputs.append((reset['sig'], 'bit', None))
    outs.append(('mk', 'u', 6, 0))
    sigs = [('s0', 'u', 3, rnd.randrange(8))]
    if rnd.random() < 0.3:
        sigs.append(('sd', 'u', 3, sigs[0][3], False, 's0'))
    vars_ = [('v0', 'u', 3, rnd.randrange(8)), ('acc', 'u', 6, 0)]
    ins = [Obj(f"self.{n}", k, w, n, 'in') for n, k, w in inputs if not (reset and n == reset['sig'])]
    oo = [Obj(f"self.{o[0]}", o[1], o[2], o[0], 'out') for o in outs if o[0] != 'mk']
    so = [Obj(o[0], o[1], o[2], o[0], 'sig') for o in sigs]
    vo = [Obj(o[0], o[1], o[2], o[0], 'var') for o in vars_ if o[0] != 'acc']
    recs, ro, taps = record_objects(rnd, outs)
    env = Env()
    env.read = ins + oo + so + vo + ro
    env.wsig = oo + so + ro
    env.wvar = vo
    bg = BodyGen(rnd, env, coro=True, allow={'subs': subs})
    bg.call_helpers = []
    bg.marker = (Obj('acc', 'u', 6, 'acc', 'var'), Obj('self.mk', 'u', 6, 'mk', 'out'))
    body, _ = bg.coro_body(size, depth, False, False)
    if not body:
        body = [('await', bg.eg.cond(0))] + bg.simple()
    wn = written_names(body, subs=bg.subs, helpers=bg.call_helpers)
    ctx = {'kind': 'coro', 'name': 'proc', 'body': body, 'helpers': bg.call_helpers, 'subs': bg.subs,
           'pushed': [], 'driven': sorted(wn['sig'] | wn['push'] | wn['var'])}
    if reset:
        ctx['reset'] = reset
    if step_cond:
        ctx['step_cond'] = rnd.choice(['self.a', 'self.b'])
    ctxs = [ctx]
    if taps:
        ctxs.append({'kind': 'conc', 'name': 'taps', 'body': taps, 'helpers': [], 'pushed': [], 'driven': [t[1].split('.')[1] for t in taps]})
        bg.features.add('record-signal' + ('-noreset' if recs[0][1] else ''))
    spec = {'inputs': inputs, 'outs': outs, 'sigs': sigs, 'vars': vars_, 'arrs': [], 'recs': recs, 'ctxs': ctxs}
    if any(len(o) > 5 for o in sigs):
        bg.features.add('default-from-object')
    return spec, sorted(bg.features)


def gen_reset_design(rnd, size=8):
    """C04: a clocked context (plain or coroutine) with a reset of random polarity / synchronicity, objects with
    and without default, noreset objects, optional step condition and on_reset actions"""
    reset = {'sig': 'rst', 'active_low': rnd.random() < 0.4, 'is_async': rnd.random() < 0.4}
    coro = rnd.random() < 0.6
    step = rnd.random() < 0.3
    if coro:
        spec, feats = gen_coro_design(rnd, size=size, reset=reset, depth=rnd.choice([1, 2, 3]), step_cond=step)
    else:
        spec, feats = gen_seq_design(rnd, size=size, reset=reset, step_cond=step, with_conc=False)
    feats = list(feats) + ['coroutine' if coro else 'plain', 'async-reset' if reset['is_async'] else 'sync-reset',
                           'active-low' if reset['active_low'] else 'active-high'] + (['step-cond'] if step else [])
    ctx = spec['ctxs'][0]
    if rnd.random() < 0.15:
        spec['ctrl_vector'] = reset['sig']
        feats.append('clock-and-reset-from-one-vector')
    # noreset on some driven objects (whole-object and slice writes both occur in the bodies)
    def mark(lst, prob):
        out = []
        for o in lst:
            o = tuple(o)
            if len(o) == 4 and o[3] is not None and o[0] in ctx['driven'] and o[0] not in ('mk', 'acc') and rnd.random() < prob:
                o = o + (True,)
                feats.append('noreset')
            out.append(o)
        return out
    spec['outs'] = mark(spec['outs'], 0.25)
    spec['sigs'] = mark(spec['sigs'], 0.3)
    spec['vars'] = mark(spec['vars'], 0.3)
    if rnd.random() < 0.45:
        tg = [o for o in spec['outs'] if o[1] == 'u' and o[0] != 'mk' and not o[0].startswith('tap_') and o[0] not in ctx.get('pushed', [])]
        if tg:
            t = rnd.choice(tg)
            k = rnd.randrange(1, 1 << t[2])
            body = [('sig', f"self.{t[0]}", str(k))]
            if spec['sigs'] and rnd.random() < 0.5:
                s0 = spec['sigs'][0]
                body.append(('sig', s0[0], str(rnd.randrange(1 << s0[2]))))
                if s0[0] not in ctx['driven']:
                    ctx['driven'].append(s0[0])
            if t[0] not in ctx['driven']:
                ctx['driven'].append(t[0])
            ctx['on_reset'] = body
            ctx['on_reset_route'] = rnd.choice(['kw', 'kw', 'ctxobj', 'call'])
            feats.append('on_reset:' + ctx['on_reset_route'])
    return spec, sorted(set(feats))
