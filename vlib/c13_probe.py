"""Runs in a FRESH interpreter (one per creation order): canonicity and lattice of lazily created
parametrised classes, and aliasing of views at Python level.  Prints one JSON object."""
import sys
import json
import random


def main():
    repo, seed, n = sys.argv[1], int(sys.argv[2]), int(sys.argv[3])
    sys.path.insert(0, repo)
    import cohdl
    from cohdl import Bit, BitVector, Unsigned, Signed, Array, Signal, Variable, Temporary, Port, Null
    rnd = random.Random(seed)
    D = Port.Direction
    dirs = [D.INPUT, D.OUTPUT, D.INOUT]
    prim = {'bv': BitVector, 'u': Unsigned, 's': Signed}
    quals = {'Signal': Signal, 'Variable': Variable, 'Temporary': Temporary}
    viol = []
    cnt = {'identity': 0, 'distinct': 0, 'lattice': 0, 'views': 0}

    def mk(spec):
        k = spec[0]
        if k == 'bit':
            return Bit
        if k in prim:
            return prim[k][spec[1]] if spec[1] is not None else prim[k]
        if k == 'arr':
            return Array[mk(spec[1]), spec[2]]
        if k == 'q':
            return quals[spec[1]][mk(spec[2])]
        if k == 'port':
            return Port[mk(spec[1]), dirs[spec[2]]]
        raise ValueError(spec)

    def rand_prim(allow_generic=False):
        k = rnd.choice(['bit', 'bv', 'u', 's', 'u', 's', 'bv'])
        if k == 'bit':
            return ('bit',)
        if allow_generic and rnd.random() < 0.15:
            return (k, None)
        return (k, rnd.choice([1, 2, 3, 4, 7, 8, 16, 31, 32, 40, rnd.randint(1, 40)]))

    def rand_spec():
        r = rnd.random()
        if r < 0.25:
            return rand_prim()
        if r < 0.35:
            return ('arr', rand_prim(), rnd.randint(1, 8))
        inner = rand_prim(allow_generic=True) if rnd.random() < 0.85 else ('arr', rand_prim(), rnd.randint(1, 8))
        if r < 0.75:
            return ('q', rnd.choice(list(quals)), inner)
        return ('port', inner, rnd.randrange(3))

    specs = [rand_spec() for _ in range(n)]
    # the same parameters requested again later, in another order
    again = specs[:]
    rnd.shuffle(again)
    objs = {}
    for s in specs:
        objs.setdefault(s, mk(s))
    for s in again:
        o = mk(s)
        cnt['identity'] += 1
        if o is not objs[s]:
            viol.append(['not-canonical', f"{s}: two requests gave different class objects"])
    keys = list(objs)
    for i in range(len(keys)):
        for j in range(i + 1, len(keys)):
            cnt['distinct'] += 1
            if objs[keys[i]] is objs[keys[j]]:
                viol.append(['not-distinct', f"{keys[i]} and {keys[j]} are the same class object"])

    # ---- lattice
    def desc(s):
        """(qualifier, direction, kind, width, is_array) of a qualified spec, else None"""
        if s[0] == 'q':
            q, d, inner = s[1], None, s[2]
        elif s[0] == 'port':
            q, d, inner = 'Port', s[2], s[1]
        else:
            return None
        return q, d, inner

    def prim_sub(a, b):
        """is primitive spec a documented as subtype of b (reflexive)"""
        if a == b:
            return True
        if a[0] == 'arr' or b[0] == 'arr' or a[0] == 'bit' or b[0] == 'bit':
            return False
        ka, wa = a
        kb, wb = b
        if kb == 'bv':
            kind_ok = True
        else:
            kind_ok = ka == kb
        if not kind_ok:
            return False
        if wb is None:
            return True             # Q[Unsigned[n]] < Q[Unsigned], Q[X[n]] < Q[BitVector]
        return wa == wb

    def expect(sa, sb):
        da, db = desc(sa), desc(sb)
        if da is None or db is None:
            return None
        qa, dira, ia = da
        qb, dirb, ib = db
        if qa == qb:
            if qa == 'Port' and dira != dirb:
                return False
            return prim_sub(ia, ib)
        if qa == 'Port' and qb == 'Signal':
            return prim_sub(ia, ib)      # every port type is a signal type of the same wrapped type
        return False
    qspecs = [s for s in keys if desc(s) is not None]
    rnd.shuffle(qspecs)
    for a in qspecs[:60]:
        for b in qspecs[:60]:
            e = expect(a, b)
            if e is None:
                continue
            cnt['lattice'] += 1
            try:
                got = issubclass(objs[a], objs[b])
            except Exception as ex:      # noqa
                viol.append(['lattice-query-raised', f"issubclass({a}, {b}): {type(ex).__name__}: {ex}"])
                continue
            if got != e:
                viol.append(['lattice', f"issubclass({a}, {b}) is {got}, documented lattice says {e}"])
    # instances
    for a in qspecs[:25]:
        da = desc(a)
        if da[2][0] == 'arr' or (da[2][0] != 'bit' and da[2][1] is None) or da[0] == 'Port':
            continue
        try:
            inst = objs[a]()
        except Exception:      # noqa
            continue
        for b in qspecs[:40]:
            e = expect(a, b)
            cnt['lattice'] += 1
            if isinstance(inst, objs[b]) != e:
                viol.append(['lattice', f"isinstance({a}(), {b}) is {not e}, documented lattice says {e}"])

    # ---- the Python spellings bool / int are aliases of the wrapped boolean / Integer types: one canonical class each
    try:
        from cohdl import Integer
        from cohdl._core import _Boolean
        alias_pairs = [(bool, _Boolean, 'bool'), (int, Integer, 'int')]
        order = list(quals.items())
        rnd.shuffle(order)
        for qn, Q in order:
            for py, wrapped, nm in (alias_pairs if rnd.random() < 0.5 else alias_pairs[::-1]):
                first, second = (py, wrapped) if rnd.random() < 0.5 else (wrapped, py)
                a_cls, b_cls = Q[first], Q[second]
                cnt['identity'] += 1
                if a_cls is not b_cls:
                    viol.append(['not-canonical', f"{qn}[{nm}] and {qn}[{wrapped.__name__}] are different class objects"])
                inst = Q[py](1)
                cnt['lattice'] += 2
                if type(inst) is not Q[wrapped] or not isinstance(inst, Q[py]):
                    viol.append(['lattice', f"type({qn}[{nm}](1)) is not {qn}[{wrapped.__name__}]"])
        for d in dirs:
            for py, wrapped, nm in alias_pairs:
                cnt['identity'] += 1
                if Port[py, d] is not Port[wrapped, d]:
                    viol.append(['not-canonical', f"Port[{nm}, {d}] and Port[{wrapped.__name__}, {d}] are different class objects"])
                cnt['lattice'] += 1
                if not issubclass(Port[wrapped, d], Signal[py]):
                    viol.append(['lattice', f"Port[{wrapped.__name__}, {d}] is not a subclass of Signal[{nm}]"])
    except ImportError:
        pass

    # ---- views alias storage, keep root and qualifier
    for _ in range(12):
        kq = rnd.choice(['Signal', 'Variable'])
        kk = rnd.choice(['bv', 'u', 's'])
        w = rnd.randint(4, 16)
        root = quals[kq][prim[kk][w]](Null)
        model = 0

        def put(view, lo, width, bits):
            if kq == 'Signal':
                view.next = bits
            else:
                view.value = bits
        for _ in range(8):
            # a chain of slices / typed views / indices
            lo, hi = 0, w - 1
            view = root
            chain = []
            for _ in range(rnd.randint(1, 4)):
                cur_w = hi - lo + 1
                op = rnd.choice(['slice', 'slice', 'view', 'index'] if cur_w > 1 else ['view'])
                if op == 'slice':
                    a_ = rnd.randrange(cur_w)
                    b_ = rnd.randrange(a_ + 1)
                    view = view[a_:b_]
                    hi, lo = lo + a_, lo + b_
                    chain.append(f"[{a_}:{b_}]")
                elif op == 'view':
                    nm = rnd.choice(['unsigned', 'signed', 'bitvector'])
                    view = getattr(view, nm)
                    chain.append('.' + nm)
                else:
                    i_ = rnd.randrange(cur_w)
                    view = view[i_]
                    hi = lo = lo + i_
                    chain.append(f"[{i_}]")
                    break
            cnt['views'] += 1
            if view._root is not root:
                viol.append(['view-root', f"{kq}[{kk}{w}]{''.join(chain)}: _root is not the original object"])
            if type(view).qualifier is not type(root).qualifier:
                viol.append(['view-qualifier', f"{kq}[{kk}{w}]{''.join(chain)}: qualifier {type(view).qualifier}"])
            width = hi - lo + 1
            val = rnd.randrange(1 << width)
            try:
                if isinstance(cohdl.TypeQualifier.decay(view), Bit):
                    put(view, lo, 1, Bit(val & 1))
                    val &= 1
                else:
                    put(view, lo, width, BitVector[width](format(val, f'0{width}b')) if not isinstance(cohdl.TypeQualifier.decay(view), (Unsigned, Signed))
                        else type(cohdl.TypeQualifier.decay(view))(BitVector[width](format(val, f'0{width}b'))))
            except Exception as ex:      # noqa
                viol.append(['view-write-raised', f"{kq}[{kk}{w}]{''.join(chain)}: {type(ex).__name__}: {ex}"])
                continue
            model = (model & ~(((1 << width) - 1) << lo)) | (val << lo)
            got = int(str(cohdl.TypeQualifier.decay(root.bitvector)), 2)
            if got != model:
                viol.append(['view-write-through', f"{kq}[{kk}{w}]{''.join(chain)} <- {val:#x}: root holds {got:#x}, expected {model:#x}"])
                model = got
            # reading through another view sees it
            rb = int(str(cohdl.TypeQualifier.decay(root[hi:lo].bitvector if hi > lo else root[hi:lo].bitvector)), 2) if hi >= lo else 0
            if rb != (model >> lo) & ((1 << width) - 1):
                viol.append(['view-read', f"{kq}[{kk}{w}][{hi}:{lo}] reads {rb:#x}"])
        # iteration yields aliases of the bits
        bits = list(root)
        if len(bits) != w or any(b._root is not root for b in bits):
            viol.append(['view-iteration', f"{kq}[{kk}{w}] iteration"])
    print(json.dumps({'viol': viol, 'cnt': cnt, 'nspecs': len(keys)}))


main()
