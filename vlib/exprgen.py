"""Expression trees: construction, rendering as CoHDL source, evaluation by the MV model.

node kinds:
  ('in', name)  ('int', v)  ('lit', kind, w, v)  ('pyb', True|False)  (a Python bool constant, only inside any/all lists)
  ('bin', op, l, r)   op in + - * // % tdiv rem << >> & | ^ @
  ('cmp', op, l, r)   ('un', op, x)  op in ~ neg abs not bool
  ('view', which, x)  ('resize', x, n, zeros)
  ('idx', x, i)  ('idxrt', x, y)  ('slice', x, hi, lo)  ('msb', x, n)  ('lsb', x, n)
  ('ifexp', c, a, b)  ('boolop', 'and'|'or', [xs])  ('chain', [ops], [xs])
  ('selw', sel, [(const_int, expr)], default|None)   ('any', [xs])  ('all', [xs])
"""
from . import mv
from .mv import MV, SKIP, Reject


def tsrc(t):
    k, w = t
    return {'bit': 'Bit', 'bool': 'bool', 'bv': f'BitVector[{w}]', 'u': f'Unsigned[{w}]', 's': f'Signed[{w}]'}[k]


def lit_src(kind, w, v):
    if kind == 'bit':
        return f"Bit({v})"
    if kind == 'bv':
        return f"BitVector[{w}]('{v:0{w}b}')"
    if kind == 'u':
        return f"Unsigned[{w}]({v})"
    if kind == 's':
        n = v - (1 << w) if (v >> (w - 1)) & 1 else v
        return f"Signed[{w}]({n})"
    raise ValueError(kind)


def render(n, pre='self.'):
    k = n[0]
    if k == 'in':
        return pre + n[1]
    if k == 'int':
        return f"({n[1]})" if n[1] < 0 else str(n[1])
    if k == 'lit':
        return lit_src(n[1], n[2], n[3])
    if k == 'pyb':
        return 'True' if n[1] else 'False'
    if k == 'bin':
        a, b = render(n[2], pre), render(n[3], pre)
        if n[1] == 'tdiv':
            return f"cohdl.op.truncdiv({a}, {b})"
        if n[1] == 'rem':
            return f"cohdl.op.rem({a}, {b})"
        return f"({a} {n[1]} {b})"
    if k == 'nf':
        return n[1]                       # Null / Full (only as the right operand of == and !=)
    if k == 'cmp':
        return f"({render(n[2], pre)} {n[1]} {render(n[3], pre)})"
    if k == 'un':
        a = render(n[2], pre)
        return {'~': f"(~{a})", 'neg': f"(-{a})", 'abs': f"abs({a})", 'not': f"(not {a})", 'bool': f"bool({a})"}[n[1]]
    if k == 'view':
        return f"{render(n[2], pre)}.{n[1]}"
    if k == 'resize':
        if n[3]:
            return f"{render(n[1], pre)}.resize({n[2]}, zeros={n[3]})"
        return f"{render(n[1], pre)}.resize({n[2]})"
    if k == 'idx':
        return f"{render(n[1], pre)}[{n[2]}]"
    if k == 'idxrt':
        return f"{render(n[1], pre)}[{render(n[2], pre)}]"
    if k == 'slice':
        return f"{render(n[1], pre)}[{n[2]}:{n[3]}]"
    if k == 'multi':
        # multi-index x[7:4, 0]: the parts are concatenated, the first part forms the most significant bits
        return f"{render(n[1], pre)}[{', '.join(str(p) if isinstance(p, int) else f'{p[0]}:{p[1]}' for p in n[2])}]"
    if k in ('msb', 'lsb'):
        return f"{render(n[1], pre)}.{k}({'' if n[2] is None else n[2]})"
    if k == 'ifexp':
        return f"({render(n[2], pre)} if {render(n[1], pre)} else {render(n[3], pre)})"
    if k == 'boolop':
        return '(' + f' {n[1]} '.join(render(x, pre) for x in n[2]) + ')'
    if k == 'chain':
        s = render(n[2][0], pre)
        for op, x in zip(n[1], n[2][1:]):
            s += f" {op} {render(x, pre)}"
        return f"({s})"
    if k == 'selw':
        items = ', '.join(f"{c!r}: {render(e, pre)}" for c, e in n[2])
        d = '' if n[3] is None else f", default={render(n[3], pre)}"
        return f"cohdl.select_with({render(n[1], pre)}, {{{items}}}{d})"
    if k in ('any', 'all'):
        return f"{k}([{', '.join(render(x, pre) for x in n[1])}])"
    raise ValueError(k)


def evaluate(n, env):
    """env: name -> MV.  returns MV | SKIP ; raises Reject"""
    k = n[0]
    if k == 'in':
        return env[n[1]]
    if k == 'int':
        return mv.INT(n[1])
    if k == 'lit':
        return MV(n[1], n[2] if n[1] != 'bit' else None, n[3])
    if k == 'pyb':
        return mv.BOOL(bool(n[1]))
    if k == 'cmp' and n[3][0] == 'nf':
        # x == Full: every bit set; x == Null: no bit set (documented for vectors and Bit)
        a = evaluate(n[2], env)
        if a is SKIP:
            return SKIP
        if n[1] not in ('==', '!=') or a.kind not in ('bit', 'bv', 'u', 's'):
            raise Reject("Null/Full comparison")
        w = 1 if a.kind == 'bit' else a.w
        eq = a.v == ((1 << w) - 1 if n[3][1] == 'Full' else 0)
        return mv.BOOL(eq if n[1] == '==' else not eq)
    if k in ('bin', 'cmp'):
        a = evaluate(n[2], env)
        b = evaluate(n[3], env)
        # operand types are checked even when a value is skipped
        if a is SKIP or b is SKIP:
            return SKIP
        return mv.binop(n[1], a, b) if k == 'bin' else mv.compare(n[1], a, b)
    if k == 'un':
        a = evaluate(n[2], env)
        if a is SKIP:
            return SKIP
        return mv.unop(n[1], a)
    if k == 'view':
        a = evaluate(n[2], env)
        return SKIP if a is SKIP else mv.view(n[1], a)
    if k == 'resize':
        a = evaluate(n[1], env)
        return SKIP if a is SKIP else mv.resize(a, n[2], n[3])
    if k == 'idx':
        a = evaluate(n[1], env)
        return SKIP if a is SKIP else mv.index(a, n[2])
    if k == 'idxrt':
        a = evaluate(n[1], env)
        i = evaluate(n[2], env)
        if a is SKIP or i is SKIP:
            return SKIP
        if i.kind != 'u':
            raise Reject("run-time index must be unsigned")
        return mv.index(a, i.v)
    if k == 'slice':
        a = evaluate(n[1], env)
        return SKIP if a is SKIP else mv.slice_(a, n[2], n[3])
    if k == 'multi':
        a = evaluate(n[1], env)
        if a is SKIP:
            return SKIP
        acc = None
        for p in n[2]:
            part = mv.slice_(a, p, p) if isinstance(p, int) else mv.slice_(a, p[0], p[1])
            acc = part if acc is None else mv.binop('@', acc, part)
        return acc
    if k == 'msb':
        a = evaluate(n[1], env)
        return SKIP if a is SKIP else mv.msb(a, n[2])
    if k == 'lsb':
        a = evaluate(n[1], env)
        return SKIP if a is SKIP else mv.lsb(a, n[2])
    if k == 'ifexp':
        c = evaluate(n[1], env)
        a = evaluate(n[2], env)
        b = evaluate(n[3], env)
        if c is SKIP:
            return SKIP
        if c.kind not in ('bool', 'bit'):
            raise Reject("if-expression condition")
        # both branches exist in hardware, but only the selected one determines the value
        ta = a.type if a is not SKIP else None
        tb = b.type if b is not SKIP else None
        if ta is not None and tb is not None and ta != tb:
            raise Reject("if-expression branches of different type")
        return a if c.v else b
    if k == 'boolop':
        vals = [evaluate(x, env) for x in n[2]]
        for v in vals:
            if v is not SKIP and v.kind not in ('bool', 'bit'):
                raise Reject("and/or operand")
        # CoHDL evaluates every operand (no short circuit in hardware) and yields the truth value
        if any(v is SKIP for v in vals):
            return SKIP
        if n[1] == 'and':
            return mv.BOOL(all(v.v for v in vals))
        return mv.BOOL(any(v.v for v in vals))
    if k == 'chain':
        vals = [evaluate(x, env) for x in n[2]]
        if any(v is SKIP for v in vals):
            return SKIP
        r = True
        for op, a, b in zip(n[1], vals, vals[1:]):
            c = mv.compare(op, a, b)
            if c is SKIP:
                return SKIP
            r = r and bool(c.v)
        return mv.BOOL(r)
    if k == 'selw':
        s = evaluate(n[1], env)
        alts = [(c, evaluate(e, env)) for c, e in n[2]]
        d = evaluate(n[3], env) if n[3] is not None else None
        if s is SKIP:
            return SKIP
        if s.kind not in ('bv', 'u'):
            raise Reject("select_with selector")
        types = {a.type for _, a in alts if a is not SKIP}
        if d is not None and d is not SKIP:
            types.add(d.type)
        if len(types) > 1:
            raise Reject("select_with alternatives of different type")
        for c, a in alts:
            if (int(c, 2) if isinstance(c, str) else c) == s.v:
                return a
        if d is None:
            return SKIP      # no alternative selected and no default: nothing is demanded
        return d
    if k in ('any', 'all'):
        vals = [evaluate(x, env) for x in n[1]]
        for v in vals:
            if v is not SKIP and v.kind not in ('bool', 'bit'):
                raise Reject("any/all operand")
        if any(v is SKIP for v in vals):
            return SKIP
        f = any if k == 'any' else all
        return mv.BOOL(f(v.v for v in vals))
    raise ValueError(k)


def inputs_of(n, acc=None):
    if acc is None:
        acc = []
    if isinstance(n, tuple):
        if n and n[0] == 'in':
            if n[1] not in acc:
                acc.append(n[1])
        else:
            for x in n:
                inputs_of(x, acc)
    elif isinstance(n, list):
        for x in n:
            inputs_of(x, acc)
    return acc


def depth(n):
    if isinstance(n, tuple):
        if n and n[0] in ('in', 'int', 'lit'):
            return 0
        return 1 + max([depth(x) for x in n if isinstance(x, (tuple, list))] or [0])
    if isinstance(n, list):
        return max([depth(x) for x in n] or [0])
    return 0


KINDS = {'in', 'int', 'lit', 'pyb', 'bin', 'cmp', 'un', 'view', 'resize', 'idx', 'idxrt', 'slice', 'multi', 'msb', 'lsb', 'ifexp',
         'boolop', 'chain', 'selw', 'any', 'all'}


def ops_of(n, acc=None):
    """operator signature of a tree (for distinct counting)"""
    if acc is None:
        acc = []
    if isinstance(n, tuple) and n and isinstance(n[0], str) and n[0] in KINDS:
        if n[0] in ('bin', 'cmp', 'un', 'boolop'):
            acc.append(f"{n[0]}:{n[1]}")
        elif n[0] == 'view':
            acc.append(f"view:{n[1]}")
        elif n[0] == 'chain':
            acc.append("chain:" + ','.join(n[1]))
        elif n[0] == 'int':
            acc.append('int')
        elif n[0] not in ('in', 'lit'):
            acc.append(n[0])
        for x in n[1:]:
            ops_of(x, acc)
    elif isinstance(n, (list, tuple)):
        for x in n:
            ops_of(x, acc)
    return acc


def all_values(t):
    k, w = t
    if k in ('bit', 'bool'):
        return [MV(k, None, 0), MV(k, None, 1)]
    return [MV(k, w, v) for v in range(1 << w)]


def corner_values(t, rnd, n):
    k, w = t
    if k in ('bit', 'bool'):
        return [MV(k, None, 0), MV(k, None, 1)]
    m = (1 << w) - 1
    vals = {0, 1, m, m - 1, 1 << (w - 1), (1 << (w - 1)) - 1, m >> 1}
    while len(vals) < min(n, m + 1):
        vals.add(rnd.randrange(m + 1))
    return [MV(k, w, v & m) for v in sorted(vals)]


def static_type(n, in_types):
    """result type of a tree (value independent in MV); None if every probe is skipped"""
    import random
    rnd = random.Random(1)
    for attempt in range(24):
        env = {}
        for name, t in in_types.items():
            vals = corner_values(t, rnd, 6)
            env[name] = vals[(attempt * 7 + 3) % len(vals)] if attempt else vals[min(1, len(vals) - 1)]
        r = evaluate(n, env)
        if r is not SKIP:
            return r.type
    return None
