"""Lexer and recursive-descent parser for the VHDL subset that CoHDL emits (DESIGN.md appendix A).

Anything outside the subset raises VhdlSyntaxError (a check reports that as "does not parse").
The lexer also records lexical identifier problems (double / trailing underscore) in
`lex_issues`, because the regular expression is deliberately more permissive than VHDL so that
such texts still reach the conformance checker with a precise diagnosis.

AST nodes are plain tuples, first element = kind:
  expressions: ('num',int) ('char',c) ('str',s) ('id',name) ('paren',e) ('agg',[(choice|None,e)])
               ('un',op,e) ('bin',op,l,r) ('call',prefix,[args]) ('slice',prefix,a,dir,b)
               ('qual',prefix,e) ('attr',prefix,name) ('sel',prefix,name) ('others',)
  statements:  ('sassign',tgt,e,line) ('vassign',tgt,e,line) ('if',[(c,body)],else|None,line)
               ('case',e,[(choices,body)],line) ('null',line) ('assert',c,msg,line)
  concurrent:  ('cassign',tgt,e,line,group) ('select',sel,tgt,[(e,choices)],line,group)
               ('process',label,sens,decls,body,line) ('inst',label,lib,ent,arch,gmap,pmap,line)
  declarations:('signal'|'variable'|'constant',name,subtype,init,line) ('enum',name,[lits],line)
               ('array',name,lo,dir,hi,elem_subtype,line) ('function',name,line) ('attribute',text,line)
  units:       ('entity',name,generics,ports,line,end_name) ('arch',name,entity,decls,stmts,line,end_name)
  subtype:     (name,) | (name, a, dir, b)
"""
import re

TOK = re.compile(r"""
    (?P<marker>--\ CONCURRENT\ BLOCK\ \([^\n]*\))
  | (?P<ws>\s+|--[^\n]*)
  | (?P<char>'[^'\n]'(?![A-Za-z0-9_]))
  | (?P<str>"(?:[^"\n]|"")*")
  | (?P<num>\d+(?:\.\d+)?(?:[eE][+-]?\d+)?)
  | (?P<id>[A-Za-z_][A-Za-z_0-9]*)
  | (?P<op><=|>=|/=|:=|=>|\*\*|<>|[-+*/&=<>():;,.'|])
""", re.X)

VHDL93_RESERVED = frozenset("""abs access after alias all and architecture array assert attribute begin block
 body buffer bus case component configuration constant disconnect downto else elsif end entity exit file for
 function generate generic group guarded if impure in inertial inout is label library linkage literal loop
 map mod nand new next nor not null of on open or others out package port postponed procedure process pure
 range record register reject rem report return rol ror select severity signal shared sla sll sra srl subtype
 then to transport type unaffected units until use variable wait when while with xnor xor""".split())

# reserved only from VHDL-2002 / 2008 on: reported as warnings (the code base targets <= 2002)
VHDL_LATER_RESERVED = frozenset("""protected context default force parameter property release sequence assume
 assume_guarantee cover fairness restrict restrict_guarantee strong vmode vprop vunit""".split())


class VhdlSyntaxError(Exception):
    pass


def lex(src):
    pos = 0
    out = []
    issues = []
    line = 1
    n = len(src)
    while pos < n:
        m = TOK.match(src, pos)
        if not m:
            raise VhdlSyntaxError(f"line {line}: cannot tokenize {src[pos:pos+30]!r}")
        k = m.lastgroup
        t = m.group()
        pos = m.end()
        if k == 'ws':
            line += t.count('\n')
            continue
        if k == 'marker':
            out.append(('marker', t[len('-- CONCURRENT BLOCK ('):-1], line))
            continue
        if k == 'char' and out and out[-1][0] == 'id' and t[1] == '(':
            # tick of a qualified expression followed by a character literal:  T'('1' & x)
            out.append(('op', "'", line))
            pos = m.start() + 1
            continue
        if k == 'id':
            tl = t.lower()
            if tl in VHDL93_RESERVED:
                out.append(('kw', tl, line))
            else:
                if t[0] == '_' or t[-1] == '_' or '__' in t:
                    issues.append(('bad-identifier', t, line))
                out.append(('id', t, line))
        else:
            out.append((k, t, line))
    out.append(('eof', '', line))
    return out, issues


class Parser:
    def __init__(self, text):
        self.t, self.lex_issues = lex(text)
        self.i = 0
        self.group = 0          # concurrent block group id (from marker comments)
        self.group_names = {0: None}

    # ---- token helpers
    def peek(self, k=0):
        return self.t[min(self.i + k, len(self.t) - 1)]

    def next(self):
        x = self.t[self.i]
        self.i += 1
        return x

    def skip_markers(self):
        while self.t[self.i][0] == 'marker':
            self.group += 1
            self.group_names[self.group] = self.t[self.i][1]
            self.i += 1

    def at(self, *vals):
        tk = self.t[self.i]
        return tk[0] in ('kw', 'op') and tk[1] in vals

    def fail(self, what):
        tk = self.t[self.i]
        ctx = ' '.join(x[1] for x in self.t[max(0, self.i - 6):self.i + 4])
        raise VhdlSyntaxError(f"line {tk[2]}: expected {what}, got {tk[1]!r} ({tk[0]}) near `{ctx}`")

    def eat(self, val):
        if not self.at(val):
            self.fail(repr(val))
        return self.next()

    def opt(self, val):
        if self.at(val):
            self.i += 1
            return True
        return False

    def ident(self):
        tk = self.t[self.i]
        if tk[0] != 'id':
            self.fail('identifier')
        self.i += 1
        return tk[1]

    def line(self):
        return self.t[self.i][2]

    # ---- design file
    def design_file(self):
        units = []
        while True:
            self.skip_markers()
            if self.peek()[0] == 'eof':
                break
            if self.at('library'):
                self.next(); self.ident(); self.eat(';')
            elif self.at('use'):
                self.next()
                while not self.at(';'):
                    if self.peek()[0] == 'eof':
                        self.fail("';'")
                    self.next()
                self.eat(';')
            elif self.at('entity'):
                units.append(self.entity())
            elif self.at('architecture'):
                units.append(self.arch())
            else:
                self.fail('design unit')
        return units

    def entity(self):
        ln = self.line()
        self.eat('entity'); n = self.ident(); self.eat('is')
        generics = []
        ports = []
        if self.opt('generic'):
            self.eat('('); generics = self.iface_list(); self.eat(')'); self.eat(';')
        if self.opt('port'):
            self.eat('('); ports = self.iface_list(); self.eat(')'); self.eat(';')
        self.eat('end'); self.opt('entity')
        end_name = None
        if self.peek()[0] == 'id':
            end_name = self.ident()
        self.eat(';')
        return ('entity', n, generics, ports, ln, end_name)

    def iface_list(self):
        res = []
        if self.at(')'):
            return res
        while True:
            ln = self.line()
            self.opt('signal')
            n = self.ident(); self.eat(':')
            mode = 'in'
            if self.at('in', 'out', 'inout', 'buffer'):
                mode = self.next()[1]
            ty = self.subtype()
            dflt = None
            if self.opt(':='):
                dflt = self.expr()
            res.append((n, mode, ty, dflt, ln))
            if not self.opt(';'):
                break
        return res

    def subtype(self):
        n = self.ident()
        if self.at('('):
            self.next(); a = self.expr()
            if not self.at('downto', 'to'):
                self.fail("'downto' or 'to'")
            d = self.next()[1]
            b = self.expr(); self.eat(')')
            return (n, a, d, b)
        return (n,)

    def arch(self):
        ln = self.line()
        self.eat('architecture'); n = self.ident(); self.eat('of'); e = self.ident(); self.eat('is')
        decls = self.decls()
        self.eat('begin')
        stmts = []
        while True:
            self.skip_markers()
            if self.at('end'):
                break
            stmts.append(self.conc_stmt())
        self.eat('end'); self.opt('architecture')
        end_name = None
        if self.peek()[0] == 'id':
            end_name = self.ident()
        self.eat(';')
        return ('arch', n, e, decls, stmts, ln, end_name)

    def decls(self):
        ds = []
        while True:
            self.skip_markers()
            ln = self.line()
            if self.at('signal', 'variable', 'constant'):
                k = self.next()[1]; n = self.ident(); self.eat(':'); ty = self.subtype(); init = None
                if self.opt(':='):
                    init = self.expr()
                self.eat(';'); ds.append((k, n, ty, init, ln))
            elif self.at('type'):
                self.next(); n = self.ident(); self.eat('is')
                if self.at('('):
                    self.next(); lits = [self.ident()]
                    while self.opt(','):
                        lits.append(self.ident())
                    self.eat(')'); ds.append(('enum', n, lits, ln))
                else:
                    self.eat('array'); self.eat('('); a = self.expr()
                    if not self.at('downto', 'to'):
                        self.fail("'downto' or 'to'")
                    d = self.next()[1]; b = self.expr(); self.eat(')'); self.eat('of'); el = self.subtype()
                    ds.append(('array', n, a, d, b, el, ln))
                self.eat(';')
            elif self.at('function'):
                # only the fixed helper cohdl_bool_to_std_logic is ever emitted
                self.next(); n = self.ident()
                while not (self.at('end') and self.peek(1)[:2] == ('kw', 'function')):
                    if self.peek()[0] == 'eof':
                        self.fail("'end function'")
                    self.next()
                self.next(); self.next()
                if self.peek()[0] == 'id':
                    self.ident()
                self.eat(';'); ds.append(('function', n, ln))
            elif self.at('attribute'):
                toks = []
                while not self.at(';'):
                    if self.peek()[0] == 'eof':
                        self.fail("';'")
                    toks.append(self.next()[1])
                self.eat(';'); ds.append(('attribute', ' '.join(toks), ln))
            else:
                return ds

    def conc_stmt(self):
        ln = self.line()
        if self.at('with'):
            self.next(); sel = self.expr(); self.eat('select'); tgt = self.name(); self.eat('<=')
            alts = []
            while True:
                v = self.expr(); self.eat('when'); ch = self.choices(); alts.append((v, ch))
                if self.opt(';'):
                    break
                self.eat(',')
            return ('select', sel, tgt, alts, ln, self.group)
        if self.at('process'):
            return self.process(None)
        if self.peek()[0] == 'id' and self.peek(1)[:2] == ('op', ':'):
            lab = self.ident(); self.eat(':')
            if self.at('process'):
                return self.process(lab)
            if self.at('entity'):
                self.next(); lib = self.ident(); self.eat('.'); en = self.ident(); an = None
                while self.at('.'):          # library.path.entity
                    self.next(); lib = lib + '.' + en; en = self.ident()
                if self.opt('('):
                    an = self.ident(); self.eat(')')
                gm = []
                pm = []
                if self.opt('generic'):
                    self.eat('map'); self.eat('('); gm = self.assoc(); self.eat(')')
                if self.opt('port'):
                    self.eat('map'); self.eat('('); pm = self.assoc(); self.eat(')')
                self.eat(';')
                return ('inst', lab, lib, en, an, gm, pm, ln)
            self.fail('process or entity instantiation')
        if self.at('assert'):
            return self.assert_stmt()
        tgt = self.name(); self.eat('<='); v = self.expr(); self.eat(';')
        return ('cassign', tgt, v, ln, self.group)

    def assoc(self):
        res = []
        if self.at(')'):
            return res
        while True:
            f = self.ident()
            if self.at('('):
                # conversion on the formal side:  type_mark(formal) => actual
                self.next(); inner = self.ident(); self.eat(')')
                f = ('conv', f, inner)
            self.eat('=>')
            if self.at('open'):
                self.next(); a = ('open',)
            else:
                a = self.expr()
            res.append((f, a))
            if not self.opt(','):
                break
        return res

    def process(self, lab):
        ln = self.line()
        self.eat('process'); sens = []
        if self.opt('('):
            if self.at('all'):
                self.next(); sens = 'all'
            else:
                sens.append(self.name())
                while self.opt(','):
                    sens.append(self.name())
            self.eat(')')
        self.opt('is')
        ds = self.decls(); self.eat('begin'); body = self.seq_stmts(); self.eat('end'); self.eat('process')
        if self.peek()[0] == 'id':
            self.ident()
        self.eat(';')
        return ('process', lab, sens, ds, body, ln)

    def seq_stmts(self):
        res = []
        while True:
            self.skip_markers()
            if self.at('end', 'else', 'elsif', 'when'):
                return res
            res.append(self.seq_stmt())

    def assert_stmt(self):
        ln = self.line()
        self.eat('assert'); c = self.expr(); msg = None
        if self.opt('report'):
            msg = self.expr()
        if self.opt('severity'):
            self.expr()
        self.eat(';')
        return ('assert', c, msg, ln)

    def seq_stmt(self):
        ln = self.line()
        if self.at('if'):
            self.next(); arms = []; c = self.expr(); self.eat('then'); b = self.seq_stmts(); arms.append((c, b)); els = None
            while self.at('elsif'):
                self.next(); c = self.expr(); self.eat('then'); arms.append((c, self.seq_stmts()))
            if self.opt('else'):
                els = self.seq_stmts()
            self.eat('end'); self.eat('if'); self.eat(';')
            return ('if', arms, els, ln)
        if self.at('case'):
            self.next(); e = self.expr(); self.eat('is'); alts = []
            while self.at('when'):
                self.next(); ch = self.choices(); self.eat('=>'); alts.append((ch, self.seq_stmts()))
            self.eat('end'); self.eat('case'); self.eat(';')
            return ('case', e, alts, ln)
        if self.at('null'):
            self.next(); self.eat(';'); return ('null', ln)
        if self.at('assert'):
            return self.assert_stmt()
        tgt = self.name()
        if self.at('<='):
            self.next(); v = self.expr(); self.eat(';'); return ('sassign', tgt, v, ln)
        self.eat(':='); v = self.expr(); self.eat(';')
        return ('vassign', tgt, v, ln)

    def choices(self):
        ch = [self.choice()]
        while self.opt('|'):
            ch.append(self.choice())
        return ch

    def choice(self):
        if self.at('others'):
            self.next(); return ('others',)
        return self.expr()

    # ---- expressions (VHDL-93 precedence)
    def expr(self):
        l = self.relation()
        first = None
        while self.at('and', 'or', 'xor', 'nand', 'nor', 'xnor'):
            op = self.next()[1]
            # VHDL: a sequence of different logical operators (or of nand/nor) needs parentheses
            if first is None:
                first = op
            elif op != first or op in ('nand', 'nor'):
                self.lex_issues.append(('mixed-logical-operators', op, self.line()))
            r = self.relation(); l = ('bin', op, l, r)
        return l

    def relation(self):
        l = self.simple()
        if self.at('=', '/=', '<', '<=', '>', '>='):
            op = self.next()[1]; r = self.simple(); l = ('bin', op, l, r)
            if self.at('=', '/=', '<', '<=', '>', '>='):
                self.fail('non-associative relational operator needs parentheses')
        return l

    def simple(self):
        sign = None
        if self.at('+', '-'):
            sign = self.next()[1]
        l = self.term()
        if sign:
            l = ('un', sign, l)
        while self.at('+', '-', '&'):
            op = self.next()[1]; r = self.term(); l = ('bin', op, l, r)
        return l

    def term(self):
        l = self.factor()
        while self.at('*', '/', 'mod', 'rem'):
            op = self.next()[1]; r = self.factor(); l = ('bin', op, l, r)
        return l

    def factor(self):
        if self.at('abs', 'not'):
            op = self.next()[1]
            return ('un', op, self.primary())
        p = self.primary()
        if self.at('**'):
            self.next(); p = ('bin', '**', p, self.primary())
        return p

    def primary(self):
        k, v, _ = self.peek()
        if k == 'num':
            self.next()
            if '.' in v or 'e' in v.lower():
                return ('real', float(v))
            return ('num', int(v))
        if k == 'char':
            self.next(); return ('char', v[1])
        if k == 'str':
            self.next(); return ('str', v[1:-1].replace('""', '"'))
        if self.at('('):
            self.next()
            first = self.choice_or_expr()
            if self.at('=>') or self.at(',') or self.at('|'):
                items = []
                while True:
                    if self.at('=>'):
                        self.next(); val = self.expr(); items.append((first, val))
                    else:
                        items.append((None, first))
                    if not self.opt(','):
                        break
                    first = self.choice_or_expr()
                self.eat(')')
                return ('agg', items)
            self.eat(')')
            return ('paren', first)
        if k == 'id':
            return self.name()
        self.fail('expression')

    def choice_or_expr(self):
        if self.at('others'):
            self.next(); return ('others',)
        return self.expr()

    def name(self):
        n = ('id', self.ident())
        while True:
            if self.at('('):
                self.next()
                a = self.expr()
                if self.at('downto', 'to'):
                    d = self.next()[1]; b = self.expr(); self.eat(')'); n = ('slice', n, a, d, b)
                else:
                    args = [a]
                    while self.opt(','):
                        args.append(self.expr())
                    self.eat(')'); n = ('call', n, args)
            elif self.at("'"):
                self.next()
                if self.at('('):
                    self.next()
                    a = self.choice_or_expr()
                    if self.at('=>') or self.at(','):
                        items = []
                        first = a
                        while True:
                            if self.at('=>'):
                                self.next(); val = self.expr(); items.append((first, val))
                            else:
                                items.append((None, first))
                            if not self.opt(','):
                                break
                            first = self.choice_or_expr()
                        a = ('agg', items)
                    self.eat(')'); n = ('qual', n, a)
                else:
                    n = ('attr', n, self.ident())
            elif self.at('.'):
                self.next(); n = ('sel', n, self.ident())
            else:
                return n


def parse(text):
    p = Parser(text)
    units = p.design_file()
    return units, p.lex_issues, p.group_names


if __name__ == '__main__':
    import sys, glob
    ok = bad = 0
    for f in sorted(glob.glob(sys.argv[1])):
        try:
            parse(open(f).read()); ok += 1
        except VhdlSyntaxError as e:
            bad += 1; print("FAIL", f, e)
    print(ok, bad)
