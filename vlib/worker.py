"""Worker process: runs a shard of cases of one check module and writes the results as JSON."""
import sys
import io
import json
import importlib
import traceback
import contextlib


def main():
    modname, inp, outp = sys.argv[1:4]
    try:
        # a runaway case must not take the machine down: beyond 10 GB the case fails with MemoryError (inconclusive)
        import resource
        resource.setrlimit(resource.RLIMIT_AS, (10 << 30, 10 << 30))
    except Exception:      # noqa
        pass
    from vlib import harness
    harness.repo_on_path()
    mod = importlib.import_module(modname)
    payload = json.load(open(inp))
    results = []
    for case in payload['cases']:
        buf = io.StringIO()
        try:
            with contextlib.redirect_stdout(buf):
                r = mod.run_case(case)
        except (KeyboardInterrupt, SystemExit):
            raise
        except BaseException as e:     # a crash of the harness itself is inconclusive, never a violation
            r = harness.result(inconclusive=f"harness error in case {json.dumps(case)[:300]}: "
                                            f"{type(e).__name__}: {e}\n{traceback.format_exc(limit=6)}")
            r['cnt'] = {'_harness_errors': 1}
        results.append((case, r))
    with open(outp, 'w') as f:
        json.dump({'results': results}, f, default=str)


if __name__ == '__main__':
    main()
