"""Generator of instantiation trees for C12.

One description, two renderings of every node type N:
   def N_body(M, <ports>)         -- the node's logic on whatever objects are passed in;
                                      children are `Child(**actuals)` when M == 'h' and
                                      `Child_body(M, **actuals)` when M == 'f'
   class N(Entity)                 -- declared ports; architecture() calls N_body('h', self.<ports>)
TopH / TopF are two top entities with identical ports calling Top_body('h'/'f').  The hierarchical
design therefore instantiates entities where the flat design has the same logic inline.
"""
import random

HEADER = """from __future__ import annotations
import cohdl
from cohdl import Entity, Port, Bit, BitVector, Unsigned, Signed, Signal, Variable, Null, Full
from cohdl import std
"""

TY = {'bit': 'Bit', 'bv4': 'BitVector[4]', 'bv8': 'BitVector[8]', 'u4': 'Unsigned[4]'}
VH = {'bit': ('std_logic',), 'bv4': ('std_logic_vector', 3, 0), 'bv8': ('std_logic_vector', 7, 0), 'u4': ('unsigned', 3, 0)}
IN_NAMES = ['a', 'b', 'c', 'din', 'Sel', 'x0', 'data_in', 'EN', 'arg1', 'p']
OUT_NAMES = ['y', 'z', 'q', 'dout', 'Res', 'o1', 'data_out', 'Q2', 'r']


def default_src(ty, rnd):
    if ty == 'bit':
        return rnd.choice(['True', 'False'])
    if ty == 'bv4':
        return '"' + ''.join(rnd.choice('01') for _ in range(4)) + '"'
    if ty == 'bv8':
        return '"' + ''.join(rnd.choice('01') for _ in range(8)) + '"'
    return str(rnd.randrange(16))


class Node:
    def __init__(self, name):
        self.name = name
        self.ports = []        # (name, 'in'|'out', ty, default_src|None)   ('clk' first)
        self.body = []         # rendered lines of N_body (without def line)
        self.insts = []        # dicts: child (Node), actuals {formal: (src_text, root, sel)}, order [formals], inline(bool)
        self.sigs = []         # (name, ty)
        self.depth = 0
        self.base = None       # Node this entity class is derived from


class Gen:
    def __init__(self, rnd, max_depth=3, style='mixed'):
        self.rnd = rnd
        self.nodes = []
        self.max_depth = max_depth
        self.style = style

    # ------------------------------------------------------------------ expressions
    def expr(self, ty, avail, depth=2):
        r = self.rnd
        leaves = self.leaf_candidates(ty, avail)
        if depth <= 0 or (leaves and r.random() < 0.3):
            if leaves:
                return r.choice(leaves)
            return {'bit': 'Bit(True)', 'bv4': 'BitVector[4]("0110")', 'bv8': 'BitVector[8]("10010110")', 'u4': 'Unsigned[4](5)'}[ty]
        e = lambda t: self.expr(t, avail, depth - 1)     # noqa
        if ty in ('bv4', 'bv8'):
            k = r.randrange(6)
            if k == 0:
                return f"(~{e(ty)})"
            if k in (1, 2, 3):
                return f"({e(ty)} {'&|^'[k - 1]} {e(ty)})"
            if k == 4:
                return f"({e(ty)} if {e('bit')} else {e(ty)})"
            if ty == 'bv8':
                return f"({e('bv4')} @ {e('bv4')})"
            return f"({e('u4')} + {r.randrange(1, 15)}).bitvector"
        if ty == 'u4':
            k = r.randrange(5)
            if k == 0:
                return f"({e('u4')} + {e('u4')})"
            if k == 1:
                return f"({e('u4')} - {e('u4')})"
            if k == 2:
                return f"({e('u4')} + {r.randrange(1, 15)})"
            if k == 3:
                return f"({e('u4')} if {e('bit')} else {e('u4')})"
            return f"({e('bv4')}).unsigned"
        k = r.randrange(5)
        if k == 0:
            return f"(~{e('bit')})"
        if k in (1, 2):
            return f"({e('bit')} {'&^'[k - 1]} {e('bit')})"
        if k == 3:
            return f"({e('bit')} if {e('bit')} else {e('bit')})"
        return f"({e('bv4')})[{r.randrange(4)}]"

    def leaf_candidates(self, ty, avail):
        """expressions of type `ty` that read one available object: (text)"""
        res = []
        for n, t in avail:
            if t == ty:
                res += [n, n]
            if ty == 'bv4':
                if t == 'bv8':
                    res += [f"{n}[7:4]", f"{n}[3:0]"]
                if t == 'u4':
                    res.append(f"{n}.bitvector")
            elif ty == 'u4':
                if t == 'bv4':
                    res.append(f"{n}.unsigned")
                if t == 'bv8':
                    res.append(f"{n}[3:0].unsigned")
            elif ty == 'bit':
                if t in ('bv4', 'u4'):
                    res.append(f"{n}[{self.rnd.randrange(4)}]")
                if t == 'bv8':
                    res.append(f"{n}[{self.rnd.randrange(8)}]")
        return res

    def in_actual(self, ty, avail):
        """actual for an input formal: (text, root, selector) selector = None | (hi, lo)"""
        r = self.rnd
        cands = []
        for n, t in avail:
            if t == ty:
                cands += [(n, n, None)] * 3
            if ty == 'bv4':
                if t == 'bv8':
                    cands += [(f"{n}[7:4]", n, (7, 4)), (f"{n}[3:0]", n, (3, 0)), (f"{n}[5:2]", n, (5, 2))]
                if t == 'u4' and self.style != 'noviews':
                    cands.append((f"{n}.bitvector", n, None))
            elif ty == 'u4':
                if t == 'bv4' and self.style != 'noviews':
                    cands.append((f"{n}.unsigned", n, None))
                if t == 'bv8' and self.style != 'noviews':
                    cands.append((f"{n}[6:3].unsigned", n, (6, 3)))
            elif ty == 'bit':
                if t in ('bv4', 'u4'):
                    i = r.randrange(4)
                    cands.append((f"{n}[{i}]", n, (i, i)))
                if t == 'bv8':
                    i = r.randrange(8)
                    cands.append((f"{n}[{i}]", n, (i, i)))
        if not cands:
            return None
        text, root, sel = r.choice(cands)
        if '[' in root:
            # alias of the driven part of a partially driven signal
            base, rest = root.split('[', 1)
            rest = rest.rstrip(']')
            bhi, blo = (int(x) for x in rest.split(':')) if ':' in rest else (int(rest), int(rest))
            sel = (bhi, blo) if sel is None else (blo + sel[0], blo + sel[1])
            root = base
        return text, root, sel

    # ------------------------------------------------------------------ nodes
    def new_node(self, depth, is_top=False):
        r = self.rnd
        nd = Node(f"N{len(self.nodes)}" if not is_top else 'Top')
        nd.depth = depth
        self.nodes.append(nd)
        nin, nout = r.randint(1, 4), r.randint(1, 3)
        inn = r.sample(IN_NAMES, nin)
        outn = r.sample(OUT_NAMES, nout)
        nd.ports.append(('clk', 'in', 'bit', None))
        tys = ['bit', 'bv4', 'bv4', 'bv8', 'u4']
        for n in inn:
            nd.ports.append((n, 'in', r.choice(tys), None))
        for n in outn:
            nd.ports.append((n, 'out', r.choice(tys), None))
        r.shuffle(nd.ports)     # declared order mixes directions; clk anywhere
        avail = [(n, t) for n, d, t, _ in nd.ports if d == 'in' and n != 'clk']
        undriven = [(n, t) for n, d, t, _ in nd.ports if d == 'out']
        ctx = [0]
        L = nd.body

        def new_sig(ty, default=None):
            n = f"s{len(nd.sigs)}"
            nd.sigs.append((n, ty))
            L.append(f"    {n} = Signal[{TY[ty]}]({(default + ', ') if default is not None else ''}name='{n}')")
            return n

        def drive(target, ty, allow_default_on=None):
            """a concurrent or clocked driver for target"""
            ctx[0] += 1
            if r.random() < 0.5:
                L.append("    @std.concurrent")
                L.append(f"    def c{ctx[0]}():")
                L.append(f"        {target}.next = {self.expr(ty, avail)}")
            else:
                L.append("    @std.sequential(std.Clock(clk))")
                L.append(f"    def q{ctx[0]}():")
                # registers may read themselves / later objects: no combinational loop through a register
                L.append(f"        {target}.next = {self.expr(ty, avail + ([(target, ty)] if '[' not in target and '.' not in target else []))}")

        steps = r.randint(1, 4)
        for _ in range(steps):
            k = r.random()
            if k < 0.45 and depth < self.max_depth:
                self.add_instance(nd, avail, undriven, new_sig)
            else:
                ty = r.choice(tys)
                seq_default = default_src(ty, r) if r.random() < 0.5 else None
                # a default is only meaningful (and identical in both renderings) on a register
                if seq_default is not None:
                    n = new_sig(ty, seq_default)
                    ctx[0] += 1
                    L.append("    @std.sequential(std.Clock(clk))")
                    L.append(f"    def q{ctx[0]}():")
                    L.append(f"        {n}.next = {self.expr(ty, avail + [(n, ty)])}")
                else:
                    n = new_sig(ty)
                    drive(n, ty)
                avail.append((n, ty))
        if depth < self.max_depth and not nd.insts and (is_top or r.random() < 0.5):
            self.add_instance(nd, avail, undriven, new_sig)
        for n, t in list(undriven):
            drive(n, t)
            if is_top and r.random() < 0.3:
                pass
        # parent may read back its own outputs (buffer) -- top only, and give top outputs defaults sometimes
        if is_top:
            for i, (n, d, t, df) in enumerate(nd.ports):
                inst_driven = {a[1] for i in nd.insts for a in i['actuals'].values()}
                # (the compiler removes defaults from objects driven by instances, by design; such a default would
                #  only exist in the flat rendering)
                if d == 'out' and n not in inst_driven and r.random() < 0.4:
                    nd.ports[i] = (n, d, t, default_src(t, r))
        return nd

    def add_instance(self, nd, avail, undriven, new_sig):
        r = self.rnd
        reuse = [c for c in self.nodes if c is not nd and c.name != 'Top' and c.depth > nd.depth and self._inputs_ok(c, avail)]
        if reuse and r.random() < 0.2:
            # an entity class derived from an existing one: inherits its ports and logic, adds an output port of its own
            # (the base class stays in use: its interface must not change)
            base = r.choice([c for c in reuse if c.base is None] or reuse)
            child = Node(f"{base.name}d{len(self.nodes)}")
            child.depth = base.depth
            child.base = base
            xt = r.choice(['bit', 'bv4', 'u4'])
            child.ports = list(base.ports) + [('xo', 'out', xt, None)]
            src = [(n, t) for n, d, t, _ in base.ports if d == 'in' and n != 'clk']
            child.body = [f"    {base.name}_body(M, " + ', '.join(f"{p[0]}={p[0]}" for p in base.ports) + ")",
                          "    @std.concurrent", "    def cx():", f"        xo.next = {self.expr(xt, src)}"]
            child.insts = []
            self.nodes.append(child)
        elif reuse and r.random() < 0.45:
            child = r.choice(reuse)
        else:
            child = self.new_node(nd.depth + 1)
            if not self._inputs_ok(child, avail):
                # create missing sources as registers of the needed type
                for n, d, t, _ in child.ports:
                    if d == 'in' and n != 'clk' and self.in_actual(t, avail) is None:
                        s = new_sig(t, default_src(t, r))
                        nd.body.append("    @std.sequential(std.Clock(clk))")
                        nd.body.append(f"    def q_{s}():")
                        nd.body.append(f"        {s}.next = {self.expr(t, avail + [(s, t)])}")
                        avail.append((s, t))
        actuals = {}
        new_avail = []
        for n, d, t, _ in child.ports:
            if n == 'clk':
                actuals[n] = ('clk', 'clk', None)
            elif d == 'in':
                actuals[n] = self.in_actual(t, avail)
            else:
                # output: an undriven output port of this node with the same type, or a fresh signal (whole / slice / view)
                direct = [(pn, pt) for pn, pt in undriven if pt == t]
                if direct and r.random() < 0.5:
                    pn, pt = r.choice(direct)
                    undriven.remove((pn, pt))
                    actuals[n] = (pn, pn, None)
                    continue
                k = r.random()
                if t == 'bv4' and k < 0.25:
                    # the instance drives a slice; the signal has a default and its other bits (never driven) are read
                    s = new_sig('bv8', default_src('bv8', r) if r.random() < 0.6 else None)
                    hi = r.choice([7, 5, 3])
                    actuals[n] = (f"{s}[{hi}:{hi - 3}]", s, (hi, hi - 3))
                    rest = {7: [(f"{s}[3:0]", 'bv4')], 3: [(f"{s}[7:4]", 'bv4')], 5: [(f"{s}[7]", 'bit'), (f"{s}[0]", 'bit')]}[hi]
                    if nd.body[-1].startswith(f"    {s} = Signal") and '"' in nd.body[-1]:
                        # with a default only the never-driven bits are read: the initial value of the driven bits is the
                        # child's port value in the hierarchy but the signal's default in the inlined rendering (the same
                        # documented asymmetry as for whole signals, whose default the compiler removes)
                        for ea in rest:
                            new_avail.append((ea[0], ea[1], 'alias'))
                    else:
                        new_avail.append((s, 'bv8', (hi, hi - 3)))
                elif t == 'bv4' and k < 0.4 and self.style != 'noviews':
                    s = new_sig('u4')
                    actuals[n] = (f"{s}.bitvector", s, None)
                    new_avail.append((s, 'u4', None))
                elif t == 'u4' and k < 0.3 and self.style != 'noviews':
                    s = new_sig('bv4')
                    actuals[n] = (f"{s}.unsigned", s, None)
                    new_avail.append((s, 'bv4', None))
                elif t == 'bit' and k < 0.3:
                    s = new_sig('bv4')
                    i = r.randrange(4)
                    actuals[n] = (f"{s}[{i}]", s, (i, i))
                    new_avail.append((s, 'bv4', (i, i)))
                else:
                    s = new_sig(t)
                    actuals[n] = (s, s, None)
                    new_avail.append((s, t, None))
        order = list(actuals)
        if r.random() < 0.7:
            r.shuffle(order)
        inline = r.random() < 0.25
        kw = ', '.join(f"{f}={actuals[f][0]}" for f in order)
        L = nd.body
        idx = len(nd.insts)
        if inline:
            L.append("    if M == 'h':")
            L.append("        @std.concurrent")
            L.append(f"        def inl{idx}():")
            L.append(f"            {child.name}({kw})")
            L.append("    else:")
            L.append(f"        {child.name}_body(M, {kw})")
        else:
            L.append("    if M == 'h':")
            L.append(f"        {child.name}({kw})")
            L.append("    else:")
            L.append(f"        {child.name}_body(M, {kw})")
        nd.insts.append({'child': child, 'actuals': actuals, 'order': order, 'inline': inline})
        for s, t, sel in new_avail:
            if sel is None or sel == 'alias':
                avail.append((s, t))
            else:
                # only the driven part may be read (the rest stays 'U' in both renderings, but keep it out of expressions)
                pass
        # partially driven roots are read through exactly the driven slice
        for s, t, sel in new_avail:
            if sel is not None and sel != 'alias':
                hi, lo = sel
                nd_alias = f"{s}[{hi}:{lo}]" if hi != lo else f"{s}[{hi}]"
                avail.append((nd_alias, 'bv4' if hi != lo else 'bit'))

    def _inputs_ok(self, child, avail):
        return all(self.in_actual(t, avail) is not None for n, d, t, _ in child.ports if d == 'in' and n != 'clk')

    # ------------------------------------------------------------------ rendering
    def render(self):
        L = [HEADER]
        order = [n for n in self.nodes if n.name != 'Top' and n.base is None][::-1]
        for d in [n for n in self.nodes if n.base is not None]:
            order.insert(order.index(d.base) + 1, d)          # a derived class directly after its base
        order += [n for n in self.nodes if n.name == 'Top']
        for nd in order:
            args = ', '.join(p[0] for p in nd.ports)
            L.append(f"def {nd.name}_body(M, {args}):")
            L += nd.body or ["    pass"]
            L.append("")
            for cname in ([nd.name] if nd.name != 'Top' else ['TopH', 'TopF']):
                L.append(f"class {cname}({nd.base.name if nd.base is not None else 'Entity'}):")
                for n, d, t, df in (nd.ports if nd.base is None else nd.ports[len(nd.base.ports):]):
                    if d == 'in':
                        L.append(f"    {n} = Port.input({TY[t]})")
                    else:
                        L.append(f"    {n} = Port.output({TY[t]}{', default=' + df if df is not None else ''})")
                L.append("    def architecture(self):")
                mode = 'f' if cname == 'TopF' else 'h'
                L.append(f"        {nd.name}_body('{mode}', " + ', '.join(f"{p[0]}=self.{p[0]}" for p in nd.ports) + ")")
                L.append("")
        return '\n'.join(L) + '\n'


def generate(seed, max_depth=3, style='mixed'):
    rnd = random.Random(seed)
    g = Gen(rnd, max_depth=max_depth, style=style)
    top = g.new_node(0, is_top=True)
    return g, top
