import os
import sys
import argparse
import importlib


def main():
    ap = argparse.ArgumentParser()
    ap.add_argument('pid')
    ap.add_argument('--tier', default=os.environ.get('VERIF_TIER', 'quick'), choices=['quick', 'thorough'])
    ap.add_argument('--seed', type=int, default=int(os.environ.get('VERIF_SEED', '0')))
    ap.add_argument('--replay')
    a = ap.parse_args()
    os.environ.setdefault('PYTHONHASHSEED', '0')
    from vlib import harness
    if a.pid == 'selftest':
        from vlib import selftest
        sys.exit(selftest.main(a.tier))
    mod = importlib.import_module('checks.' + a.pid.lower())
    harness.repo_on_path()
    rc = harness.run_check(mod, a.tier, a.seed, a.replay)
    sys.exit(rc)


if __name__ == '__main__':
    main()
