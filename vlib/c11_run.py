"""Runs one compilation history in a FRESH interpreter and prints, per step, the SHA-256 of the emitted
text or the rejection.  argv: repo, json list of steps; step = [name, options] where name is
'good:<k>' / 'bad:<k>' (vlib.c11_pool) or 'gen:<c01|c03|c04>:<seed>' (vlib.bodygen), options =
{'reserved': [...]}"""
import sys
import io
import json
import hashlib
import random
import contextlib


def main():
    repo, verif, steps = sys.argv[1], sys.argv[2], json.loads(sys.argv[3])
    sys.path.insert(0, verif)
    sys.path.insert(0, repo)
    from cohdl import std
    from vlib import c11_pool as pool
    out = []
    gen_cache = {}
    for name, opts in steps:
        kind, _, rest = name.partition(':')
        try:
            if kind == 'good':
                cls = pool.GOOD[rest]()
            elif kind == 'bad':
                cls = pool.BAD[rest]()
            else:
                g, _, seed = rest.partition(':')
                if name not in gen_cache:
                    from vlib import bodygen, progen
                    from vlib.harness import load_source
                    rnd = random.Random(int(seed))
                    if g == 'c03':
                        spec, _f = bodygen.gen_seq_design(rnd, size=8)
                    elif g == 'c01':
                        spec, _f = bodygen.gen_coro_design(rnd, size=8, depth=3)
                    else:
                        spec, _f = bodygen.gen_reset_design(rnd, size=6)
                    src = progen.render_cohdl(spec, 'G' + seed)
                    gen_cache[name] = getattr(load_source(src, 'c11g'), 'G' + seed)
                cls = gen_cache[name]
            kw = {}
            if opts.get('reserved'):
                kw['additional_reserved_names'] = set(opts['reserved'])
            buf = io.StringIO()
            with contextlib.redirect_stdout(buf):
                text = std.VhdlCompiler.to_string(cls, **kw)
            out.append(['ok', hashlib.sha256(text.encode()).hexdigest(), len(text)])
        except (KeyboardInterrupt, SystemExit):
            raise
        except BaseException as e:      # noqa
            out.append(['rejected', type(e).__name__, str(e)[:160]])
    print(json.dumps(out))


main()
