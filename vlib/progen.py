"""Dual rendering of generated process bodies (DESIGN.md 1.2, appendix E).

A design spec (plain dicts/lists/tuples, built by a seeded generator) is printed twice:
  * as CoHDL source (a real .py file, compiled by the real compiler), and
  * as plain Python over vlib.model objects: the *same statement text*, with `await`/loop ticks of a
    coroutine made explicit as `yield`s according to the property statement.  CPython executes it.

Statement forms (tuples):
  ('sig', tgt, expr) ('var', tgt, expr) ('push', tgt, expr)        tgt/expr are source strings
  ('if', [(cond, body), ...], else_body|None)
  ('match', subject, [(pattern, body), ...], default_body|None)
  ('forbreak', itemlist_src, loopvars_src, cond, body, else_body|None, use_return)
  ('ret', expr|None)                                                helper functions / sub coroutines
  ('expr', src)                                                     bare call of a helper
  ('assign', name, src)                                             local name = expr (single assignment)
  coroutines only:
  ('await', cond) ('awaittrue',) ('awaitfalse',) ('while', cond|None, body) ('break',) ('continue',)
  ('awaitsub', name, args_src, result_name|None)
"""
import re
import ast
import random
from collections import Counter

from . import model
from .model import MRec, ModelError, MSig, MVar, MArr, MVal, Ctx, NS
from . import mv
from .harness import load_source, unload, compile_top, Rejected, violation
from .vsim import Meta, Uninit, Unsupported, fmt

HEADER = """from __future__ import annotations
import cohdl
from cohdl import Entity, Port, Bit, BitVector, Unsigned, Signed, Signal, Variable, Temporary, Array, Null, Full, true, false
from cohdl import std
"""


def tsrc(kind, w):
    return {'bit': 'Bit', 'bool': 'bool', 'bv': f'BitVector[{w}]', 'u': f'Unsigned[{w}]', 's': f'Signed[{w}]'}[kind]


def dsrc(kind, w, v):
    """source of a default value"""
    if v is None:
        return None
    if kind in ('bit', 'bool'):
        return 'True' if v else 'False'
    if kind == 'bv':
        return f"'{v:0{w}b}'"
    if kind == 's':
        return str(v - (1 << w) if (v >> (w - 1)) & 1 else v)
    return str(v)


# ----------------------------------------------------------------------------------------------
# rendering
# ----------------------------------------------------------------------------------------------
class Renderer:
    def __init__(self, ref, coro):
        self.ref = ref          # True: reference rendering
        self.coro = coro        # body belongs to a coroutine (async def)
        self.lines = []

    def emit(self, ind, s):
        self.lines.append('    ' * ind + s)

    def body(self, stmts, ind, first):
        """first: True when the first statement of `stmts` is statically the first action of the process"""
        if not stmts:
            self.emit(ind, 'pass')
            return
        for s in stmts:
            self.stmt(s, ind, first)
            if s[0] != 'comment':        # comments are transparent for "first action"
                first = False

    def tick(self, ind):
        self.emit(ind, 'yield _t()')

    def stmt(self, s, ind, first):
        k = s[0]
        ref = self.ref
        if k == 'sig':
            self.emit(ind, f"{s[1]} <<= {s[2]}")
        elif k == 'var':
            self.emit(ind, f"{s[1]} @= {s[2]}")
        elif k == 'push':
            self.emit(ind, f"{s[1]} ^= {s[2]}")
        elif k == 'assign':
            self.emit(ind, f"{s[1]} = {s[2]}")
        elif k == 'expr':
            self.emit(ind, s[1])
        elif k == 'comment':
            self.emit(ind, 'pass' if ref else f"std.comment({s[1]!r})")
        elif k == 'ret':
            self.emit(ind, 'return' if s[1] is None else f"return {s[1]}")
        elif k == 'if':
            for i, (c, b) in enumerate(s[1]):
                self.emit(ind, f"{'if' if i == 0 else 'elif'} {c}:")
                self.body(b, ind + 1, False)
            if s[2] is not None:
                self.emit(ind, 'else:')
                self.body(s[2], ind + 1, False)
        elif k == 'match':
            self.emit(ind, f"match {s[1]}:")
            for pat, b in s[2]:
                self.emit(ind + 1, f"case {pat}:")
                self.body(b, ind + 2, False)
            if s[3] is not None:
                self.emit(ind + 1, "case _:")
                self.body(s[3], ind + 2, False)
        elif k == 'forbreak':
            _, items, loopvars, cond, body, els, use_return = s
            self.emit(ind, f"for {loopvars} in {items}:")
            self.emit(ind + 1, f"if {cond}:")
            self.body(body, ind + 2, False)
            if not use_return:
                self.emit(ind + 2, 'break')
            if els is not None:
                if use_return:
                    self.body(els, ind, False)
                else:
                    self.emit(ind, 'else:')
                    self.body(els, ind + 1, False)
        elif k == 'await':
            if ref:
                if not first:
                    self.tick(ind)
                self.emit(ind, f"while not ({s[1]}):")
                self.tick(ind + 1)
            else:
                # only plain signals can be awaited directly, expressions need cohdl.expr(...)
                if re.fullmatch(r"(self\.)?[A-Za-z_][A-Za-z_0-9]*", s[1]):
                    self.emit(ind, f"await {s[1]}")
                else:
                    self.emit(ind, f"await cohdl.expr({s[1]})")
        elif k == 'awaitcall':
            if ref:
                # the helper runs once (its statements make this await a non-first action), then its result is polled
                self.emit(ind, f"_aw_{s[1]} = {s[1]}()")
                self.tick(ind)
                self.emit(ind, f"while not (_aw_{s[1]}):")
                self.tick(ind + 1)
            else:
                self.emit(ind, f"await {s[1]}()")
        elif k == 'awaitfalse':
            # halts the coroutine for good (until a reset): nothing behind it ever executes
            if ref:
                self.emit(ind, "while True:")
                self.tick(ind + 1)
            else:
                self.emit(ind, "await false")
        elif k == 'awaittrue':
            if ref:
                if not first:
                    self.tick(ind)
                else:
                    self.emit(ind, 'pass')
            else:
                self.emit(ind, "await true")
        elif k == 'while':
            cond = 'True' if s[1] is None else s[1]
            if ref:
                if not first:
                    self.tick(ind)
                self.emit(ind, f"while _w({cond}):")
                self.body(s[2], ind + 1, False)
                self.tick(ind + 1)
            else:
                self.emit(ind, f"while {cond}:")
                self.body(s[2], ind + 1, False)
        elif k == 'break':
            self.emit(ind, 'break')
        elif k == 'continue':
            self.emit(ind, 'continue')
        elif k == 'awaitsub':
            _, name, args, res = s
            if ref:
                call = f"(yield from {name}({'True' if first else 'False'}, {args}))" if args else f"(yield from {name}({'True' if first else 'False'}))"
            else:
                call = f"await {name}({args})"
            self.emit(ind, call if res is None else f"{res} = {call}")
        else:
            raise ValueError(k)


def _walk(stmts):
    for st in stmts:
        yield st
        k = st[0]
        if k == 'if':
            for _, b in st[1]:
                yield from _walk(b)
            if st[2]:
                yield from _walk(st[2])
        elif k == 'match':
            for _, b in st[2]:
                yield from _walk(b)
            if st[3]:
                yield from _walk(st[3])
        elif k == 'while':
            yield from _walk(st[2])
        elif k == 'forbreak':
            yield from _walk(st[4])
            if st[5]:
                yield from _walk(st[5])


def nonlocals(body, params):
    """closure objects that are rebound by an augmented assignment on a bare name need `nonlocal`
    (in CPython and in CoHDL alike)"""
    ps = {p.strip() for p in params.split(',') if p.strip()}
    names = []
    for st in _walk(body):
        if st[0] in ('sig', 'var', 'push'):
            t = st[1]
            if t.isidentifier() and t not in ps and t not in names:
                names.append(t)
    return ('nonlocal ' + ', '.join(names)) if names else None


def render_function(ref, name, params, body, coro, ind, is_process=False):
    """returns list of lines.  In the reference rendering a sub-coroutine takes an extra leading
    parameter `_first` (is its first statement the first action of the process?) - the body is rendered
    in both variants and selected at run time, because 'first action' propagates into a sub-coroutine
    awaited in first position."""
    r = Renderer(ref, coro)
    nl = nonlocals(body, params)
    if not ref:
        r.emit(ind, f"{'async ' if coro else ''}def {name}({params}):")
        if nl:
            r.emit(ind + 1, nl)
        r.body(body, ind + 1, False)
        return r.lines
    if not coro:
        r.emit(ind, f"def {name}({params}):")
        if nl:
            r.emit(ind + 1, nl)
        r.body(body, ind + 1, False)
        return r.lines
    if is_process:
        r.emit(ind, f"def {name}():")
        if nl:
            r.emit(ind + 1, nl)
        r.body(body, ind + 1, True)
        r.emit(ind + 1, "return")
        r.emit(ind + 1, "yield")
        return r.lines
    p = '_first' + (', ' + params if params else '')
    r.emit(ind, f"def {name}({p}):")
    if nl:
        r.emit(ind + 1, nl)
    r.emit(ind + 1, "if _first:")
    r.body(body, ind + 2, True)
    r.emit(ind + 1, "else:")
    r.body(body, ind + 2, False)
    r.emit(ind + 1, "return")
    r.emit(ind + 1, "yield")
    return r.lines


def render_cohdl(spec, cname):
    L = [HEADER]
    for n, noreset, fields in spec.get('recs', []):
        L.append(f"class {cname}_{n}(std.Record):")
        for fn, k, w, d in fields:
            L.append(f"    {fn}: {tsrc(k, w)}")
        L.append("")
    L += [f"class {cname}(Entity):", "    clk = Port.input(Bit)"]
    for n, k, w in spec['inputs']:
        L.append(f"    {n} = Port.input({tsrc(k, w)})")
    for o in spec['outs']:
        n, k, w, d = o[:4]
        extra = ''
        if d is not None:
            extra += f", default={dsrc(k, w, d)}"
        if len(o) > 4 and o[4]:
            extra += ", noreset=True"
        L.append(f"    {n} = Port.output({tsrc(k, w)}{extra})")
    L.append("    def architecture(self):")
    for o in spec.get('sigs', []):
        n, k, w, d = o[:4]
        args = [] if d is None else [dsrc(k, w, d)]
        if len(o) > 5 and o[5]:
            args = [o[5]]      # default taken from an earlier declared object of the same type
        args.append(f"name='{n}'")
        if len(o) > 4 and o[4]:
            args.append("noreset=True")
        L.append(f"        {n} = Signal[{tsrc(k, w)}]({', '.join(args)})")
    for o in spec.get('vars', []):
        n, k, w, d = o[:4]
        args = [] if d is None else [dsrc(k, w, d)]
        args.append(f"name='{n}'")
        if len(o) > 4 and o[4]:
            args.append("noreset=True")
        L.append(f"        {n} = Variable[{tsrc(k, w)}]({', '.join(args)})")
    for n, noreset, fields in spec.get('recs', []):
        args = ', '.join(f"{fn}={dsrc(k, w, d)}" for fn, k, w, d in fields)
        L.append(f"        {n} = std.{'NoresetSignal' if noreset else 'Signal'}[{cname}_{n}]({args})")
    for n, k, w, cnt, is_sig, d in spec.get('arrs', []):
        q = 'Signal' if is_sig else 'Variable'
        init = '' if d is None else '[' + ', '.join(dsrc(k, w, x) for x in d) + '], '
        L.append(f"        {n} = {q}[Array[{tsrc(k, w)}, {cnt}]]({init}name='{n}')")
    cv = spec.get('ctrl_vector')
    if cv:
        # clock and reset reach the context as two elements of one vector signal (same root object)
        # (its initial value keeps the reset inactive: an undefined level at time 0 would fire an active-low asynchronous reset)
        low = any(c.get('reset') and c['reset'].get('active_low') and c['reset']['sig'] == cv for c in spec['ctxs'])
        L.append(f"        ctrl = Signal[BitVector[2]]('{'10' if low else '00'}', name='ctrl')")
        L.append("        @std.concurrent")
        L.append("        def ctrl_drv():")
        L.append("            ctrl[0] <<= self.clk")
        L.append(f"            ctrl[1] <<= self.{cv}")
    for ctx in spec['ctxs']:
        for h in ctx.get('helpers', []):
            L += render_function(False, h['name'], h['params'], h['body'], False, 2)
        for sub in ctx.get('subs', []):
            L += render_function(False, sub['name'], sub['params'], sub['body'], True, 2)
        if ctx['kind'] == 'conc':
            L.append("        @std.concurrent")
            L += render_function(False, ctx['name'], '', ctx['body'], False, 2)
            continue
        args = ["std.Clock(ctrl[0])" if cv else "std.Clock(self.clk)"]
        rs = ctx.get('reset')
        if rs:
            a = ["ctrl[1]" if cv == rs['sig'] else f"self.{rs['sig']}"]
            if rs.get('active_low'):
                a.append("active_low=True")
            if rs.get('is_async'):
                a.append("is_async=True")
            args.append(f"std.Reset({', '.join(a)})")
        if ctx.get('step_cond'):
            args.append(f"step_cond=lambda: {ctx['step_cond']}")
        route = ctx.get('on_reset_route', 'kw')
        if ctx.get('on_reset'):
            L += render_function(False, ctx['name'] + '_on_reset', '', ctx['on_reset'], False, 2)
            if route in ('kw', 'ctxobj'):
                args.append(f"on_reset={ctx['name']}_on_reset")
        if ctx.get('on_reset') and route == 'ctxobj':
            # every public route of registering on_reset actions must work
            L.append(f"        ctx_{ctx['name']} = std.SequentialContext({', '.join(args)})")
            L.append(f"        @ctx_{ctx['name']}")
        elif ctx.get('on_reset') and route == 'call':
            L.append(f"        ctx_{ctx['name']} = std.SequentialContext({', '.join(args)})")
            L.append(f"        @ctx_{ctx['name']}(on_reset={ctx['name']}_on_reset)")
        else:
            L.append(f"        @std.sequential({', '.join(args)})")
        L += render_function(False, ctx['name'], '', ctx['body'], ctx['kind'] == 'coro', 2)
    return '\n'.join(L) + '\n'


def render_ref(spec):
    """python source of  build(self, api) -> {'ctxs': [...]}"""
    L = ["def build(self, api):",
         "    Bit, BitVector, Unsigned, Signed, Null, Full, true, false = api.Bit, api.BitVector, api.Unsigned, api.Signed, api.Null, api.Full, True, False",
         "    _t, _w = api.tick, api.loop",
         "    out = []"]
    for o in spec.get('sigs', []):
        n, k, w, d = o[:4]
        L.append(f"    {n} = api.sig({n!r}, {k!r}, {w!r}, {d!r}, {bool(len(o) > 4 and o[4])})")
    for o in spec.get('vars', []):
        n, k, w, d = o[:4]
        L.append(f"    {n} = api.var({n!r}, {k!r}, {w!r}, {d!r}, {bool(len(o) > 4 and o[4])})")
    for n, k, w, cnt, is_sig, d in spec.get('arrs', []):
        L.append(f"    {n} = api.arr({n!r}, {k!r}, {w!r}, {cnt!r}, {is_sig!r}, {d!r})")
    for n, noreset, fields in spec.get('recs', []):
        L.append(f"    {n} = api.rec({n!r}, {[tuple(f) for f in fields]!r}, {bool(noreset)})")
    for ctx in spec['ctxs']:
        for h in ctx.get('helpers', []):
            L += render_function(True, h['name'], h['params'], h['body'], False, 1)
        coro = ctx['kind'] == 'coro'
        for sub in ctx.get('subs', []):
            L += render_function(True, sub['name'], sub['params'], sub['body'], True, 1)
        L += render_function(True, ctx['name'], '', ctx['body'], coro, 1, is_process=True)
        if ctx.get('on_reset'):
            L += render_function(True, ctx['name'] + '_on_reset', '', ctx['on_reset'], False, 1)
            L.append(f"    out.append(({ctx['name']!r}, {ctx['name']}, {ctx['name']}_on_reset))")
        else:
            L.append(f"    out.append(({ctx['name']!r}, {ctx['name']}, None))")
        if ctx.get('step_cond'):
            L.append(f"    api.step_conds[{ctx['name']!r}] = lambda: {ctx['step_cond']}")
    L.append("    return out")
    return '\n'.join(L) + '\n'


# ----------------------------------------------------------------------------------------------
# reference execution
# ----------------------------------------------------------------------------------------------
class _TypeFactory:
    def __init__(self, kind):
        self.kind = kind

    def __getitem__(self, w):
        kind = self.kind

        def ctor(v=0):
            if isinstance(v, str):
                v = int(v, 2)
            if isinstance(v, model.Ops):
                m = v._mv()
                r = mv.convert(m, kind, w)
                if r is None:
                    raise ModelError("constructor conversion")
                return MVal(r)
            return model.const(kind, w, v)
        return ctor


class _Api:
    def __init__(self, ref):
        self.ref = ref
        self.Bit = lambda v=0: MVal(mv.BIT(1 if (v in (1, True, '1')) else 0))
        self.BitVector = _TypeFactory('bv')
        self.Unsigned = _TypeFactory('u')
        self.Signed = _TypeFactory('s')
        self.Null = model.NULL
        self.Full = model.FULL
        self.step_conds = {}
        self.spin = 0

    def tick(self):
        self.spin = 0

    def loop(self, c):
        self.spin += 1
        if self.spin > 2000:
            raise ModelError("zero-time loop in the reference rendering")
        return bool(c)

    def sig(self, n, k, w, d, noreset):
        s = MSig(k, w, d, name=n, noreset=noreset)
        self.ref.locals_[n] = s
        return s

    def var(self, n, k, w, d, noreset):
        s = MVar(k, w, d, name=n, noreset=noreset)
        self.ref.locals_[n] = s
        return s

    def arr(self, n, k, w, cnt, is_sig, d):
        a = MArr(k, w, cnt, d, name=n, is_signal=is_sig)
        self.ref.locals_[n] = a
        return a

    def rec(self, n, fields, noreset):
        r = MRec(n, fields, noreset)
        self.ref.locals_[n] = r
        return r


class Ref:
    """one live instance of the reference rendering of a design"""

    def __init__(self, spec, build):
        self.spec = spec
        self.ns = NS()
        self.locals_ = {}
        self.inputs = {}
        self.outs = {}
        for n, k, w in spec['inputs']:
            h = MSig(k, w, 0, name=n)
            setattr(self.ns, n, h)
            self.inputs[n] = h
        for o in spec['outs']:
            n, k, w, d = o[:4]
            h = MSig(k, w, d, name=n, noreset=bool(len(o) > 4 and o[4]))
            setattr(self.ns, n, h)
            self.outs[n] = h
        self.api = _Api(self)
        procs = build(self.ns, self.api)
        self.ctxs = []
        for (name, fn, on_reset), cspec in zip(procs, spec['ctxs']):
            c = {'name': name, 'fn': fn, 'spec': cspec, 'gen': None, 'on_reset': on_reset,
                 'pushed': [self.lookup(p) for p in cspec.get('pushed', [])]}
            self.ctxs.append(c)
        self.all_holders = list(self.outs.values()) + [v for v in self.locals_.values()]

    def lookup(self, n):
        if n in self.locals_:
            return self.locals_[n]
        return getattr(self.ns, n)

    def holders_of(self, names):
        out = []
        for n in names:
            h = self.lookup(n)
            out.extend(h.elems if isinstance(h, (MArr, MRec)) else [h])
        return out

    def set_inputs(self, vals):
        for n, v in vals.items():
            h = self.inputs[n]
            h.cur = h._norm(v)

    def _new_gen(self, c):
        fn = c['fn']

        def run():
            while True:
                yield from fn()
                yield
        return run()

    def reset_ctx(self, c):
        """model of an active reset for context c: driven objects with default and not noreset take the
        default, the coroutine returns to its first state, on_reset runs, nothing else executes"""
        for h in self.holders_of(c['spec'].get('driven', [])):
            if h.default is not None and not h.noreset:
                if h.is_signal:
                    h.pending = h.default
                else:
                    h.cur = h.default
        c['gen'] = None
        if c['on_reset'] is not None:
            c['on_reset']()

    def step(self, vals):
        """one rising clock edge with the given input valuation"""
        self.set_inputs(vals)
        self.settle_conc()       # combinational logic settles on the new inputs before the edge
        for c in self.ctxs:
            cs = c['spec']
            if cs['kind'] == 'conc':
                continue
            rs = cs.get('reset')
            if rs is not None:
                lvl = self.inputs[rs['sig']].cur.v
                active = (lvl == 0) if rs.get('active_low') else (lvl == 1)
                if active:
                    self.reset_ctx(c)
                    continue
            sc = self.api.step_conds.get(c['name'])
            if sc is not None and not sc():
                continue
            for s in c['pushed']:
                if s.default is None:
                    raise ModelError("pushed signal without default")
                s.pending = s.default
            self.api.spin = 0
            if cs['kind'] == 'coro':
                if c['gen'] is None:
                    c['gen'] = self._new_gen(c)
                next(c['gen'])
            else:
                c['fn']()
        for h in self.all_holders:
            h.commit()
        self.settle_conc()

    def async_reset(self, vals):
        """inputs changed between clock edges: only asynchronous resets react"""
        self.set_inputs(vals)
        self.settle_conc()
        for c in self.ctxs:
            rs = c['spec'].get('reset')
            if rs is not None and rs.get('is_async'):
                lvl = self.inputs[rs['sig']].cur.v
                active = (lvl == 0) if rs.get('active_low') else (lvl == 1)
                if active:
                    self.reset_ctx(c)
        for h in self.all_holders:
            h.commit()
        self.settle_conc()

    def settle_conc(self):
        """concurrent contexts continuously drive their targets: re-evaluate until nothing changes"""
        concs = [c for c in self.ctxs if c['spec']['kind'] == 'conc']
        if not concs:
            return
        for _ in range(20):
            before = self.state_values()
            for c in concs:
                c['fn']()
            for h in self.all_holders:
                h.commit()
            if self.state_values() == before:
                return
        raise ModelError("concurrent contexts do not settle")

    def state_values(self):
        return tuple(h.state() for h in self.all_holders)

    def fingerprint(self):
        fp = [self.state_values()]
        for c in self.ctxs:
            g = c['gen']
            pos = []
            while g is not None:
                fr = getattr(g, 'gi_frame', None)
                if fr is None:
                    break
                loc = tuple(sorted((k, (v._mv().kind, v._mv().w, v._mv().v)) for k, v in fr.f_locals.items()
                                   if isinstance(v, MVal)))
                pos.append((fr.f_lineno, loc))
                g = g.gi_yieldfrom
            fp.append(tuple(pos))
        return tuple(fp)


class _IfExpSnapshot(ast.NodeTransformer):
    """`a if c else b` with a run-time condition is a multiplexer: its result is a new value, not an alias of the
    selected operand (a later write to a variable / array element used as operand must not show through).  Python's own
    conditional expression would return the model object itself, so it is routed through _ifx in the reference."""

    def visit_IfExp(self, node):
        self.generic_visit(node)
        for sub in ast.walk(node):
            if isinstance(sub, (ast.Yield, ast.YieldFrom, ast.Await)):
                return node

        def lam(body):
            return ast.Lambda(args=ast.arguments(posonlyargs=[], args=[], kwonlyargs=[], kw_defaults=[], defaults=[]), body=body)
        return ast.Call(func=ast.Name(id='_ifx', ctx=ast.Load()), args=[node.test, lam(node.body), lam(node.orelse)], keywords=[])


def _ifx(c, a, b):
    # (the generators only produce run-time conditions for conditional expressions; `not x` / `x and y` on model values
    #  yield Python bools, so the type of `c` cannot tell a compile-time condition from a run-time one)
    ra, rb = a(), b()
    if ra is rb:
        return ra                           # both operands are the same object: the compiler returns that object
    r = ra if c else rb
    if isinstance(r, MVal) or not hasattr(r, '_mv'):
        return r
    return MVal(r._mv())


def make_ref_factory(spec):
    src = render_ref(spec)
    glb = {'_ifx': _ifx}
    tree = ast.fix_missing_locations(_IfExpSnapshot().visit(ast.parse(src)))
    exec(compile(tree, '<reference rendering>', 'exec'), glb)
    build = glb['build']
    return (lambda: Ref(spec, build)), src


# ----------------------------------------------------------------------------------------------
# comparison of a compiled design with its reference rendering
# ----------------------------------------------------------------------------------------------
def observables(spec, sim):
    """[(kind, name, getter)] of everything we can observe on the vsim side"""
    obs = []
    for o in spec['outs']:
        obs.append(('port', o[0]))
    for o in spec.get('sigs', []):
        if o[0].lower() in sim.top['sig']:
            obs.append(('sig', o[0]))
    return obs


def compare(spec, sim, ref, obs, cnt, where):
    for kind, n in obs:
        h = ref.lookup(n)
        if h.cur is None:
            cnt['undefined_skipped'] += 1
            continue
        got = sim.S[sim.top['sig'][n.lower()]]
        cnt['comparisons'] += 1
        if got.__class__ is Meta or got.__class__ is Uninit or got != h.cur.v:
            return f"{kind} {n}: emitted design has {fmt(got, h.w or 1)} but the directly executed source gives {h.cur.v} ({where})"
    return None


def input_space(spec, data_samples=None, rnd=None):
    """all valuations of the inputs; wide data inputs are sampled"""
    import itertools
    doms = []
    names = []
    for n, k, w in spec['inputs']:
        names.append(n)
        size = 2 if k == 'bit' else 1 << w
        if size <= 8:
            doms.append(list(range(size)))
        else:
            s = {0, 1, size - 1, size >> 1}
            while len(s) < 6:
                s.add(rnd.randrange(size))
            doms.append(sorted(s))
    return [dict(zip(names, c)) for c in itertools.product(*doms)]


def run_design(spec, rnd, explore_budget=400, random_clocks=300, max_depth=40, want_text=False):
    """compile, execute under vsim and under the reference; returns dict(viol, cnt, status, ...)"""
    cnt = Counter()
    viol = []
    cname = f"PG{rnd.randrange(1 << 30)}"
    src = render_cohdl(spec, cname)
    out = {'viol': viol, 'cnt': cnt, 'src': src, 'status': None}
    try:
        factory, refsrc = make_ref_factory(spec)
        out['refsrc'] = refsrc
    except SyntaxError as e:
        out['status'] = f"generator-error: reference rendering does not parse: {e}"
        cnt['generator_errors'] += 1
        return out
    mod = load_source(src, 'pg')
    try:
        try:
            comp = compile_top(getattr(mod, cname))
        except Rejected as r:
            out['status'] = 'rejected'
            out['reject'] = str(r)
            cnt['rejected'] += 1
            cnt['rejected:' + r.msg[:48]] += 1
            return out
        cnt['accepted'] += 1
        out['text'] = comp.text
        out['comp'] = comp
        zero = {n: 0 for n, k, w in spec['inputs']}
        # reset inputs start inactive
        for ctx in spec['ctxs']:
            rs = ctx.get('reset')
            if rs and rs.get('active_low'):
                zero[rs['sig']] = 1
        try:
            sim = comp.sim(init=dict(zero, clk=0))
        except Unsupported as u:
            out['status'] = f"vsim-unsupported: {u}"
            cnt['vsim_unsupported'] += 1
            return out
        out['sim'] = sim
        for kind, det in sim.issues:
            cnt['vcheck:' + kind] += 1
        nstates = 0
        for ctx in spec['ctxs']:
            pass
        try:
            ref0 = factory()
        except ModelError as e:
            out['status'] = f"model-error at construction: {e}"
            cnt['model_errors'] += 1
            return out
        obs = observables(spec, sim)
        inputs = input_space(spec, rnd=rnd)
        for n, v in zero.items():
            sim.set(n, v)
        sim.sched[sim.top['sig']['clk']] = 0
        sim.settle()
        sim.events.clear()
        sim.asserts_failed.clear()
        base = sim.snapshot()
        has_async = any(c.get('reset') and c['reset'].get('is_async') for c in spec['ctxs'])

        def apply(simx, refx, vals, where):
            for n, v in vals.items():
                simx.set(n, v)
            if has_async:
                simx.settle()
                refx.async_reset(vals)
                m = compare(spec, simx, refx, obs, cnt, where + ' (after input change, before the clock edge)')
                if m:
                    return m
            simx.clock()
            refx.step(vals)
            cnt['clocks'] += 1
            return compare(spec, simx, refx, obs, cnt, where)

        # ---- bounded breadth-first exploration of the joint state space, all input valuations per state
        seen = set()
        frontier = [[]]
        edges = 0
        closed = True
        mism = None
        try:
            while frontier and mism is None:
                nxt = []
                for prefix in frontier:
                    if edges >= explore_budget or len(prefix) >= max_depth:
                        closed = False
                        break
                    for vals in inputs:
                        sim.restore(base)
                        ref = factory()
                        ok = True
                        for pv in prefix:
                            m = apply(sim, ref, pv, 'replay')
                            if m:      # cannot happen: the prefix was clean when first explored
                                ok = False
                                break
                        if not ok:
                            continue
                        m = apply(sim, ref, vals, f"after input sequence {prefix + [vals]}")
                        edges += 1
                        if m:
                            mism = m
                            break
                        key = (sim.state_key(), ref.fingerprint())
                        if key not in seen:
                            seen.add(key)
                            nxt.append(prefix + [vals])
                    if mism:
                        break
                else:
                    frontier = nxt
                    continue
                break
            cnt['joint_states'] += len(seen)
            cnt['edges'] += edges
            if closed and mism is None and not frontier:
                cnt['closures_reached'] += 1
            # ---- long random run
            if mism is None and random_clocks:
                sim.restore(base)
                ref = factory()
                p = rnd.choice([0.15, 0.5, 0.85])
                hist = []
                for i in range(random_clocks):
                    vals = {}
                    for n, k, w in spec['inputs']:
                        if k == 'bit':
                            vals[n] = int(rnd.random() < p)
                        else:
                            vals[n] = rnd.randrange(1 << w)
                    for ctx in spec['ctxs']:
                        rs = ctx.get('reset')
                        if rs:
                            act = rnd.random() < 0.06
                            vals[rs['sig']] = int(act != bool(rs.get('active_low')))
                    hist.append(vals)
                    m = apply(sim, ref, vals, f"random run, clock {i}, last inputs {hist[-6:]}")
                    if m:
                        mism = m
                        break
        except ModelError as e:
            out['status'] = f"model-error: {e}"
            cnt['model_errors'] += 1
            return out
        if mism:
            viol.append(violation('trace-mismatch', mism))
        for k, n in sim.events.items():
            cnt['simev:' + k] += n
        out['events'] = dict(sim.events)
        out['event_samples'] = dict(sim.event_samples)
        out['status'] = 'compared'
        out['closed'] = closed and not frontier
        out['states'] = len(seen)
        return out
    finally:
        unload(mod)
