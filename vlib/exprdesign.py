"""Build, compile and simulate entities that drive output ports with expressions, once from a
concurrent context and once from a clocked context; compare every output with the MV model."""
import itertools
import random
from . import exprgen as eg
from .exprgen import SKIP, Reject
from .harness import load_source, unload, compile_top, Rejected, violation
from .vsim import Meta, Unsupported, fmt

HEADER = """from __future__ import annotations
import cohdl
from cohdl import Entity, Port, Bit, BitVector, Unsigned, Signed, Signal, Variable, Temporary, Null, Full
from cohdl import std
"""


def out_plan(i, t):
    """[(port_suffix, port_type_src, wrap)]  wrap: format string applied to the expression source"""
    k, w = t
    if k in ('bit', 'bool'):
        return [('o', 'Bit', '{}', 'raw')]
    if k == 'bv':
        return [('o', f'BitVector[{w}]', '{}', 'raw')]
    return [('o', f'BitVector[{w}]', '({}).bitvector', 'raw'), ('x', f'Signed[{w + 1}]', '{}', 'ext')]


def build_source(cname, in_types, exprs, types, contexts=('conc', 'seq')):
    lines = [HEADER, f"class {cname}(Entity):", "    clk = Port.input(Bit)"]
    for n, t in in_types.items():
        lines.append(f"    {n} = Port.input({eg.tsrc(t)})")
    conc = []
    seq = []
    for i, (e, t) in enumerate(zip(exprs, types)):
        src = eg.render(e)
        for suf, pt, wrap, _ in out_plan(i, t):
            if 'conc' in contexts:
                lines.append(f"    c{suf}{i} = Port.output({pt})")
                conc.append(f"            self.c{suf}{i} <<= {wrap.format(src)}")
            if 'seq' in contexts:
                lines.append(f"    q{suf}{i} = Port.output({pt})")
                seq.append(f"            self.q{suf}{i} <<= {wrap.format(src)}")
    lines.append("    def architecture(self):")
    if conc:
        lines.append("        @std.concurrent")
        lines.append("        def logic():")
        lines.extend(conc)
    if seq:
        lines.append("        @std.sequential(std.Clock(self.clk))")
        lines.append("        def proc():")
        lines.extend(seq)
    if not conc and not seq:
        lines.append("        pass")
    return '\n'.join(lines) + '\n'


def expected_port(mvv, mode):
    """expected raw int on the port"""
    if mode == 'raw':
        return mvv.v
    # sign/zero extended into Signed[w+1]
    return mvv.num & ((1 << (mvv.w + 1)) - 1)


_cnt = [0]
# conformance findings that make the emitted logic meaningless for a value check (typing is part of C02);
# every other vcheck finding is only counted here and is reported by the C06 check
ILL_TYPED = {'type-error', 'width-mismatch', 'undeclared-identifier', 'hides-predefined'}


def valuations(in_types, rnd, exhaustive_bits=12, samples=256):
    names = list(in_types)
    total = sum(1 if in_types[n][0] in ('bit', 'bool') else in_types[n][1] for n in names)
    if total <= exhaustive_bits:
        return [dict(zip(names, combo)) for combo in itertools.product(*[eg.all_values(in_types[n]) for n in names])], True
    per = [eg.corner_values(in_types[n], rnd, 8) for n in names]
    out = []
    for combo in itertools.product(*[p[:4] for p in per]):
        out.append(dict(zip(names, combo)))
        if len(out) >= samples // 2:
            break
    while len(out) < samples:
        out.append({n: rnd.choice(eg.all_values(in_types[n])) if in_types[n][0] in ('bit', 'bool') or in_types[n][1] <= 10
                    else eg.MV(in_types[n][0], in_types[n][1], rnd.randrange(1 << in_types[n][1])) for n in names})
    return out, False


def run_batch(in_types, exprs, rnd, contexts=('conc', 'seq'), tag='', exhaustive_bits=12, samples=256, flag_reject=True):
    """returns dict(viol=[...], cnt=Counter-like dict, accepted=bool, per_expr=[status])"""
    from collections import Counter
    cnt = Counter()
    viol = []
    types = []
    keep = []
    for e in exprs:
        try:
            t = eg.static_type(e, in_types)
        except Reject:
            cnt['mv_reject'] += 1
            continue
        if t is None or t[0] == 'int':
            cnt['mv_no_type'] += 1
            continue
        keep.append(e)
        types.append(t)
    exprs = keep
    if not exprs:
        return {'viol': viol, 'cnt': cnt}
    _cnt[0] += 1
    cname = f"EX{_cnt[0]}"
    src = build_source(cname, in_types, exprs, types, contexts)
    mod = load_source(src, 'exd')
    try:
        try:
            comp = compile_top(getattr(mod, cname))
        except Rejected as r:
            cnt['batch_rejected'] += 1
            if len(exprs) == 1:
                cnt['expr_rejected'] += 1
                cnt['rejected:' + r.msg[:60]] += 1
                if flag_reject:
                    viol.append(violation('rejected-documented-expression',
                                          f"{eg.render(exprs[0])} with {in_types}: {r}", expr=repr(exprs[0]), in_types=in_types))
                return {'viol': viol, 'cnt': cnt}
            # find the offender(s): compile one by one
            for e in exprs:
                sub = run_batch(in_types, [e], rnd, contexts, tag, exhaustive_bits, samples, flag_reject)
                viol.extend(sub['viol'])
                cnt.update(sub['cnt'])
            return {'viol': viol, 'cnt': cnt}
        cnt['designs_accepted'] += 1
        try:
            sim = comp.sim()
        except Unsupported as u:
            cnt['vsim_unsupported'] += 1
            return {'viol': viol, 'cnt': cnt, 'inconclusive': f"vsim unsupported: {u}"}
        for kind, det in sim.issues:
            cnt['vcheck:' + kind] += 1
            if kind in ILL_TYPED:
                viol.append(violation('emitted-vhdl-ill-formed:' + kind, f"{det} ; exprs={[eg.render(e) for e in exprs][:6]}",
                                      in_types=in_types))
        vals, exhaustive = valuations(in_types, rnd, exhaustive_bits, samples)
        cnt['valuations'] += len(vals)
        if exhaustive:
            cnt['exhaustive_designs'] += 1
        plans = [out_plan(i, t) for i, t in enumerate(types)]
        bad = set()
        checked = [0] * len(exprs)
        for env in vals:
            for n, v in env.items():
                sim.set(n, v.v)
            if 'conc' in contexts:
                sim.settle()
            if 'seq' in contexts:
                sim.clock()
            elif 'conc' not in contexts:
                sim.settle()
            for i, e in enumerate(exprs):
                if i in bad:
                    continue
                try:
                    exp = eg.evaluate(e, env)
                except Reject:
                    continue
                if exp is SKIP:
                    cnt['skipped_valuations'] += 1
                    continue
                checked[i] += 1
                for suf, pt, wrap, mode in plans[i]:
                    want = expected_port(exp, mode)
                    for cx, pre in (('conc', 'c'), ('seq', 'q')):
                        if cx not in contexts:
                            continue
                        got = sim.get(f"{pre}{suf}{i}")
                        cnt['comparisons'] += 1
                        if got.__class__ is Meta or got != want:
                            bad.add(i)
                            viol.append(violation(
                                'value-mismatch',
                                f"{eg.render(e)} [{cx}, port {pre}{suf}{i}:{pt}] inputs "
                                f"{ {n: (v.kind, v.w, v.v) for n, v in env.items()} } -> got {fmt(got)} expected {want} ({exp})",
                                expr=repr(e), in_types=in_types, context=cx, ops=sorted(set(eg.ops_of(e)))))
                            break
                    if i in bad:
                        break
        for k, n in sim.events.items():
            cnt['simev:' + k] += n
        cnt['exprs_checked'] += sum(1 for c in checked if c)
        cnt['exprs_never_checked'] += sum(1 for c in checked if not c)
        return {'viol': viol, 'cnt': cnt}
    finally:
        unload(mod)
