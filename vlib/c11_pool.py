"""Design pool for C11 (must live in a real file: CoHDL uses inspect.getsource).

GOOD: factories returning a fresh Entity class that compiles.  BAD: factories returning a class whose
compilation is rejected, chosen so that the failure happens at different stages (architecture execution,
tracing inside a prefix / a coroutine / a SequentialContext, IR generation inside an open state
machine, the temporaries check, the driver check, the back end).  Module-level classes are used to
compile the *same class object* repeatedly."""
from __future__ import annotations
import cohdl
from cohdl import Entity, Port, Bit, BitVector, Unsigned, Signed, Signal, Variable, Array, Null, Full, enum, select_with
from cohdl import std


# ------------------------------------------------------------------------------------------------ accepted
def good_comb():
    class Comb(Entity):
        a = Port.input(BitVector[4])
        b = Port.input(BitVector[4])
        o = Port.output(BitVector[4])

        def architecture(self):
            @std.concurrent
            def logic():
                self.o <<= (self.a & self.b) | ~self.a
    return Comb


def good_counter():
    class Counter(Entity):
        clk = Port.input(Bit)
        rst = Port.input(Bit)
        cnt = Port.output(Unsigned[8], default=0)

        def architecture(self):
            @std.sequential(std.Clock(self.clk), std.Reset(self.rst))
            def proc():
                self.cnt <<= self.cnt + 1
    return Counter


def good_coro():
    class Coro(Entity):
        clk = Port.input(Bit)
        a = Port.input(Bit)
        b = Port.input(Bit)
        state = Port.output(Unsigned[3], default=0)

        def architecture(self):
            async def sub(x):
                await x
                self.state <<= 5
                return

            @std.sequential(std.Clock(self.clk))
            async def proc():
                await self.a
                self.state <<= 1
                while self.b:
                    self.state <<= self.state + 1
                    if self.a:
                        break
                await sub(self.b)
                self.state <<= 7
    return Coro


def good_two_coros():
    class TwoCoros(Entity):
        clk = Port.input(Bit)
        rst = Port.input(Bit)
        a = Port.input(Bit)
        x = Port.output(Bit, default=False)
        y = Port.output(Bit, default=False)

        def architecture(self):
            ctx = std.SequentialContext(std.Clock(self.clk), std.Reset(self.rst))

            @ctx
            async def first():
                await self.a
                self.x <<= ~self.x

            @ctx
            async def second():
                await cohdl.expr(not self.a)
                self.y <<= self.x
    return TwoCoros


def good_prefix():
    class Prefixed(Entity):
        clk = Port.input(Bit)
        a = Port.input(Bit)
        o = Port.output(Bit)

        def architecture(self):
            with std.prefix("stage"):
                r0 = Signal[Bit](False, name=std.name("reg_a"))
                with std.prefix("inner"):
                    r1 = Signal[Bit](False, name=std.name("reg_b"))
            with std.prefix("stage"):
                r2 = Signal[Bit](False, name=std.name("reg_c"))

            @std.sequential(std.Clock(self.clk))
            def proc():
                nonlocal r0, r1, r2
                with std.prefix("loc"):
                    t = Signal[Bit](name=std.name("tmp"))
                    t <<= self.a
                r0 <<= self.a
                r1 <<= r0
                r2 <<= r1
                self.o <<= r2 ^ t
    return Prefixed


def good_named_qualifier():
    class NamedQ(Entity):
        d0 = Port.input(BitVector[4])
        d1 = Port.input(BitVector[4])
        o = Port.output(BitVector[4])

        def architecture(self):
            with std.prefix("arr_inp"):
                arr_in = std.Array[BitVector[4], 2](Null)
            arr_out = std.Array[BitVector[4], 2](Null, _qualifier_=std.NamedQualifier[std.Signal, "arr_out"])

            @std.concurrent
            def logic():
                nonlocal arr_in, arr_out
                arr_in <<= [self.d0, self.d1]
                arr_out <<= arr_in
                self.o <<= arr_out[0] | arr_out[1]
    return NamedQ


def good_hierarchy():
    class Leaf(Entity):
        i = Port.input(Bit)
        o = Port.output(Bit)

        def architecture(self):
            @std.concurrent
            def logic():
                self.o <<= ~self.i

    class Mid(Entity):
        i = Port.input(Bit)
        o = Port.output(Bit)

        def architecture(self):
            s = Signal[Bit](name='link')
            Leaf(i=self.i, o=s)
            Leaf(i=s, o=self.o)

    class Top(Entity):
        a = Port.input(Bit)
        b = Port.input(Bit)
        x = Port.output(Bit)
        y = Port.output(Bit)

        def architecture(self):
            Mid(i=self.a, o=self.x)
            Leaf(i=self.b, o=self.y)
    return Top


def good_inline_entity():
    class Inv(Entity):
        i = Port.input(BitVector[2])
        o = Port.output(BitVector[2])

        def architecture(self):
            @std.concurrent
            def logic():
                self.o <<= ~self.i

    class UsesInline(Entity):
        a = Port.input(BitVector[2])
        o = Port.output(BitVector[2])

        def architecture(self):
            @std.concurrent
            def logic():
                t = Signal[BitVector[2]](name='t_inl')
                Inv(i=self.a, o=t)
                self.o <<= t
    return UsesInline


def good_always():
    class Always(Entity):
        clk = Port.input(Bit)
        en = Port.input(Bit)
        a = Port.input(BitVector[4])
        b = Port.input(BitVector[4])
        o = Port.output(BitVector[4])

        def architecture(self):
            @std.sequential(std.Clock(self.clk))
            async def proc():
                v = cohdl.always(self.a | self.b)
                await self.en
                self.o <<= v
    return Always


def good_enum():
    class Mode(enum.Enum):
        idle = enum.auto()
        run = enum.auto()
        stop = enum.auto()

    class EnumUser(Entity):
        clk = Port.input(Bit)
        code = Port.input(BitVector[2])
        out = Port.output(BitVector[2])

        def architecture(self):
            m = Signal[Mode](Mode.idle, name='mode')

            @std.sequential(std.Clock(self.clk))
            def proc():
                nonlocal m
                m <<= select_with(self.code, {"00": Mode.idle, "01": Mode.run}, Mode.stop)
                self.out <<= select_with(m, {Mode.idle: "00", Mode.run: "01"}, Null)
    return EnumUser


def good_array_mem():
    class Mem(Entity):
        clk = Port.input(Bit)
        we = Port.input(Bit)
        addr = Port.input(Unsigned[2])
        din = Port.input(BitVector[4])
        dout = Port.output(BitVector[4])

        def architecture(self):
            mem = Signal[Array[BitVector[4], 4]](name='mem')

            @std.sequential(std.Clock(self.clk))
            def proc():
                if self.we:
                    mem[self.addr] <<= self.din
                self.dout <<= mem[self.addr]
    return Mem


def good_fifo():
    class FifoUser(Entity):
        clk = Port.input(Bit)
        rst = Port.input(Bit)
        push = Port.input(Bit)
        pop = Port.input(Bit)
        din = Port.input(BitVector[4])
        dout = Port.output(BitVector[4], default=Null)
        empty = Port.output(Bit)
        full = Port.output(Bit)

        def architecture(self):
            fifo = std.Fifo[BitVector[4], 4]()
            std.concurrent_assign(self.empty, fifo.empty())
            std.concurrent_assign(self.full, fifo.full())

            @std.sequential(std.Clock(self.clk), std.Reset(self.rst))
            def proc():
                if self.push and not fifo.full():
                    fifo.push(self.din)
                if self.pop and not fifo.empty():
                    self.dout <<= fifo.pop()
    return FifoUser


def good_helpers():
    def pick(c, x, y):
        if c:
            return x + 1
        elif x == y:
            return y
        return x - y

    class Helpers(Entity):
        clk = Port.input(Bit)
        c = Port.input(Bit)
        x = Port.input(Unsigned[4])
        y = Port.input(Unsigned[4])
        o = Port.output(Unsigned[4], default=0)
        p = Port.output(Unsigned[4], default=0)

        def architecture(self):
            v = Variable[Unsigned[4]](0, name='acc')

            @std.sequential(std.Clock(self.clk))
            def proc():
                nonlocal v
                v @= pick(self.c, self.x, self.y)
                for cond, val in [(self.c, self.x), (self.x[0], self.y)]:
                    if cond:
                        self.p <<= val
                        break
                else:
                    self.p <<= 0
                self.o <<= v
    return Helpers


def good_names():
    class Names(Entity):
        clk = Port.input(Bit)
        signal = Port.input(Bit)
        x = Port.output(Bit)
        x1 = Port.output(Bit)

        def architecture(self):
            a = Signal[Bit](name='x')
            b = Signal[Bit](name='x')
            c = Signal[Bit](name='toggle')
            d = Signal[Bit](name='state')

            @std.concurrent
            def logic():
                a.next = self.signal
                b.next = ~a
                c.next = b
                d.next = c
                self.x <<= d
                self.x1 <<= a
    return Names


def good_executor():
    def add_args(a, b):
        return a + b

    class Exec(Entity):
        clk = Port.input(Bit)
        reset = Port.input(Bit)
        start = Port.input(Bit)
        i1 = Port.input(Unsigned[8])
        i2 = Port.input(Unsigned[8])
        res = Port.output(Unsigned[8])

        def architecture(self):
            ctx = std.SequentialContext(std.Clock(self.clk), std.Reset(self.reset))
            S = Signal[Unsigned[8]]
            ex = std.Executor.make_parallel(ctx, add_args, S(), S(), S())

            @ctx
            async def proc():
                await self.start
                self.res <<= await ex.exec(self.i1, self.i2)
    return Exec


class Fixed1(Entity):
    """module level: the same class object is compiled again and again"""
    clk = Port.input(Bit)
    a = Port.input(Unsigned[3])
    o = Port.output(Unsigned[3], default=0)

    def architecture(self):
        with std.prefix("pp"):
            r = Signal[Unsigned[3]](0, name=std.name("r"))
        loc = Signal[Bit]()

        @std.sequential(std.Clock(self.clk))
        async def proc():
            nonlocal r
            await self.a[0]
            r <<= self.a + 1
            loc.next = r[0]
            self.o <<= r


def good_fixed1():
    return Fixed1


class FixedLeaf(Entity):
    i = Port.input(Bit)
    o = Port.output(Bit)

    def architecture(self):
        @std.concurrent
        def logic():
            self.o <<= self.i


class Fixed2(Entity):
    a = Port.input(Bit)
    o = Port.output(Bit, default=False)

    def architecture(self):
        m = Signal[Bit](name='m')
        FixedLeaf(i=self.a, o=m)
        FixedLeaf(i=m, o=self.o)


def good_fixed2():
    return Fixed2


class FixedCaps(Entity):
    """module level class with upper / mixed case port names (compiled repeatedly: per-class bookkeeping keyed by port name)"""
    CLK = Port.input(Bit)
    Din = Port.input(Unsigned[3])
    LED = Port.output(Unsigned[3], default=0)
    busyFlag = Port.output(Bit, default=False)

    def architecture(self):
        @std.sequential(std.Clock(self.CLK))
        def proc():
            self.LED <<= self.Din + 1
            self.busyFlag <<= self.Din[0]


def good_fixed_caps():
    return FixedCaps


class FixedCtxPrefix(Entity):
    """module level class whose prefixes / generated names are only created inside a traced context (recompiled in histories)"""
    clk = Port.input(Bit)
    inp = Port.input(BitVector[4])
    outp = Port.output(BitVector[4], default="0000")

    def architecture(self):
        @std.sequential(std.Clock(self.clk))
        def proc():
            with std.prefix("stage"):
                first = Signal[BitVector[4]](name=std.name("reg"))
            with std.prefix("stage"):
                second = Signal[BitVector[4]](name=std.name("reg"))
            first.next = self.inp
            second.next = first
            self.outp <<= second


def good_fixed_ctx_prefix():
    return FixedCtxPrefix


def good_literal_like_names():
    """ports and signals named like the literals of enumerations / state types of *other* designs (idle, busy, state_0 ...)"""
    class Handshake(Entity):
        clk = Port.input(Bit)
        req = Port.input(Bit)
        busy = Port.output(Bit, default=False)
        done = Port.output(Bit, default=False)
        state_0 = Port.output(Bit, default=False)

        def architecture(self):
            idle = Signal[Bit](False, name='idle')
            state_1 = Signal[Bit](False, name='state_1')

            @std.sequential(std.Clock(self.clk))
            def proc():
                idle.next = ~self.req
                state_1.next = idle
                self.busy <<= self.req
                self.done <<= state_1
                self.state_0 <<= idle
    return Handshake


def good_enum_phases():
    class Phase(cohdl.enum.Enum):
        idle = cohdl.enum.auto()
        busy = cohdl.enum.auto()
        done = cohdl.enum.auto()

    class Sequencer(Entity):
        clk = Port.input(Bit)
        start = Port.input(Bit)
        code = Port.output(BitVector[2], default="00")

        def architecture(self):
            ph = Signal[Phase](Phase.idle, name='ph')

            @std.sequential(std.Clock(self.clk))
            def proc():
                if ph == Phase.idle:
                    if self.start:
                        ph.next = Phase.busy
                elif ph == Phase.busy:
                    ph.next = Phase.done
                else:
                    ph.next = Phase.idle

            @std.concurrent
            def logic():
                self.code <<= cohdl.select_with(ph, {Phase.idle: "00", Phase.busy: "01"}, default="11")
    return Sequencer


def _bound_by_defaults(clk, src, dst):
    """shared helper: the synthesizable functions capture nothing, their objects arrive as default arguments -- every call
    creates new function objects from the same `def` with other defaults"""
    @std.concurrent
    def logic(src=src, dst=dst):
        dst.next = ~src

    held = Signal[BitVector[4]](Null)

    @std.sequential(std.Clock(clk))
    def proc(src=src, held=held):
        held.next = src
    return held


def good_defaults_a():
    class PassA(Entity):
        clk = Port.input(Bit)
        a_in = Port.input(BitVector[4])
        a_out = Port.output(BitVector[4])
        a_reg = Port.output(BitVector[4])

        def architecture(self):
            h = _bound_by_defaults(self.clk, self.a_in, self.a_out)

            @std.concurrent
            def out(h=h):
                self.a_reg <<= h
    return PassA


def good_defaults_b():
    class PassB(Entity):
        clk = Port.input(Bit)
        b_in = Port.input(BitVector[4])
        b_out = Port.output(BitVector[4])
        other = Port.output(BitVector[4])

        def architecture(self):
            h = _bound_by_defaults(self.clk, self.b_in, self.b_out)
            g = _bound_by_defaults(self.clk, h, self.other)
    return PassB


class FixedDefaults(Entity):
    """module level: recompiled in histories; the default of `blink` is a Signal created per elaboration"""
    clk = Port.input(Bit)
    led = Port.output(Bit, default=False)

    def architecture(self):
        state = Signal[Bit](False, name='state')

        @std.sequential(std.Clock(self.clk))
        def blink(state=state):
            state.next = ~state

        @std.concurrent
        def show(state=state):
            self.led <<= state


def good_fixed_defaults():
    return FixedDefaults


GOOD = {k[5:]: v for k, v in list(globals().items()) if k.startswith('good_')}


# ------------------------------------------------------------------------------------------------ rejected
def bad_arch_raises():
    class ArchRaises(Entity):
        a = Port.input(Bit)
        o = Port.output(Bit)

        def architecture(self):
            with std.prefix("dangling"):
                Signal[Bit](name=std.name("s"))
                raise RuntimeError("user error inside architecture")
    return ArchRaises


def bad_trace_in_prefix():
    class TraceInPrefix(Entity):
        clk = Port.input(Bit)
        a = Port.input(Bit)
        o = Port.output(Bit)

        def architecture(self):
            @std.sequential(std.Clock(self.clk))
            def proc():
                with std.prefix("pp"):
                    x = Signal[Bit](name=std.name("x"))
                    x <<= self.a
                    self.o <<= undefined_name_here      # noqa: F821
    return TraceInPrefix


def bad_trace_in_coroutine():
    class TraceInCoro(Entity):
        clk = Port.input(Bit)
        a = Port.input(Bit)
        o = Port.output(Bit)

        def architecture(self):
            @std.sequential(std.Clock(self.clk))
            async def proc():
                await self.a
                self.o <<= self.a
                await self.o
                self.o <<= BitVector[3]("101")
    return TraceInCoro


def bad_trace_in_context():
    class TraceInCtx(Entity):
        clk = Port.input(Bit)
        rst = Port.input(Bit)
        a = Port.input(Bit)
        o = Port.output(Bit)

        def architecture(self):
            ctx = std.SequentialContext(std.Clock(self.clk), std.Reset(self.rst))

            @ctx
            def proc():
                self.o <<= self.a
                self.a <<= self.o.nonexistent_attribute
    return TraceInCtx


def bad_continue_first_state():
    class ContinueFirst(Entity):
        clk = Port.input(Bit)
        a = Port.input(Bit)
        o = Port.output(Bit, default=False)

        def architecture(self):
            @std.sequential(std.Clock(self.clk))
            async def proc():
                self.o <<= self.a
                while self.a:
                    if self.o:
                        continue
                    await self.a
    return ContinueFirst


def bad_temporary():
    class PartialTemp(Entity):
        clk = Port.input(Bit)
        a = Port.input(Bit)
        x = Port.input(Unsigned[3])
        o = Port.output(Unsigned[3], default=0)

        def architecture(self):
            @std.sequential(std.Clock(self.clk))
            def proc():
                if self.a:
                    t = self.x + 1
                self.o <<= t
    return PartialTemp


def bad_state_crossing():
    class StateCrossing(Entity):
        clk = Port.input(Bit)
        a = Port.input(Bit)
        x = Port.input(Unsigned[3])
        o = Port.output(Unsigned[3], default=0)

        def architecture(self):
            @std.sequential(std.Clock(self.clk))
            async def proc():
                t = self.x + 1
                await self.a
                self.o <<= t
    return StateCrossing


def bad_two_drivers():
    class TwoDrivers(Entity):
        clk = Port.input(Bit)
        a = Port.input(Bit)
        o = Port.output(Bit, default=False)

        def architecture(self):
            @std.sequential(std.Clock(self.clk))
            def p1():
                self.o <<= self.a

            @std.concurrent
            def p2():
                self.o <<= ~self.a
    return TwoDrivers


def bad_write_input():
    class WriteInput(Entity):
        a = Port.input(Bit)
        o = Port.output(Bit)

        def architecture(self):
            @std.concurrent
            def logic():
                self.a <<= self.o
    return WriteInput


def bad_narrowing():
    class Narrowing(Entity):
        a = Port.input(Unsigned[5])
        o = Port.output(Unsigned[3])

        def architecture(self):
            with std.prefix("nn"):
                s = Signal[Unsigned[5]](name=std.name("w"))

            @std.concurrent
            def logic():
                s.next = self.a
                self.o <<= s
    return Narrowing


def bad_sub_entity():
    class BadLeaf(Entity):
        i = Port.input(Bit)
        o = Port.output(Bit)

        def architecture(self):
            @std.sequential
            def logic():
                self.o <<= self.i.unsigned

    class BadTop(Entity):
        a = Port.input(Bit)
        o = Port.output(Bit)

        def architecture(self):
            BadLeaf(i=self.a, o=self.o)
    return BadTop


def bad_inline_entity():
    class L2(Entity):
        i = Port.input(Bit)
        o = Port.output(Bit)

        def architecture(self):
            @std.concurrent
            def logic():
                self.o <<= self.i

    class BadInline(Entity):
        a = Port.input(Bit)
        o = Port.output(Bit)

        def architecture(self):
            @std.concurrent
            def logic():
                t = Signal[Bit](name='tt')
                L2(i=self.a, o=t)
                self.o <<= t + 1
    return BadInline


def bad_port_mismatch():
    class L3(Entity):
        i = Port.input(Unsigned[4])
        o = Port.output(Unsigned[4])

        def architecture(self):
            @std.concurrent
            def logic():
                self.o <<= self.i

    class PortMismatch(Entity):
        a = Port.input(Unsigned[3])
        o = Port.output(Unsigned[4])

        def architecture(self):
            L3(i=self.a, o=self.o)
    return PortMismatch


def bad_await_temporary():
    class AwaitTemp(Entity):
        clk = Port.input(Bit)
        a = Port.input(Bit)
        b = Port.input(Bit)
        o = Port.output(Bit, default=False)

        def architecture(self):
            async def sub():
                await self.a
                await (self.a & self.b)

            @std.sequential(std.Clock(self.clk))
            async def proc():
                self.o <<= self.a
                await sub()
    return AwaitTemp


def bad_executor_ctx():
    class ExecBad(Entity):
        clk = Port.input(Bit)
        reset = Port.input(Bit)
        start = Port.input(Bit)
        res = Port.output(Unsigned[8])

        def architecture(self):
            ctx = std.SequentialContext(std.Clock(self.clk), std.Reset(self.reset))

            @ctx
            async def proc():
                with std.prefix("ee"):
                    await self.start
                    self.res <<= self.start
    return ExecBad


def bad_uses_fixed_leaf():
    """fails after the module-level FixedLeaf (also used by good:fixed2) has been instantiated"""
    class UsesFixedLeaf(Entity):
        a = Port.input(Bit)
        o = Port.output(Bit)
        p = Port.output(Bit)

        def architecture(self):
            FixedLeaf(i=self.a, o=self.o)

            @std.concurrent
            def logic():
                self.p <<= self.a.missing_attribute
    return UsesFixedLeaf


def bad_fixed1_variant():
    """a second class with the same body as Fixed1 whose coroutine fails in the middle"""
    class Fixed1(Entity):
        clk = Port.input(Bit)
        a = Port.input(Unsigned[3])
        o = Port.output(Unsigned[3], default=0)

        def architecture(self):
            with std.prefix("pp"):
                r = Signal[Unsigned[3]](0, name=std.name("r"))

            @std.sequential(std.Clock(self.clk))
            async def proc():
                nonlocal r
                await self.a[0]
                with std.prefix("inner"):
                    r <<= self.a + 1
                    self.o <<= r.nonexistent
    return Fixed1


BAD = {k[4:]: v for k, v in list(globals().items()) if k.startswith('bad_')}
