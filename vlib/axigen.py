"""Register-map layouts for C20: source generator + reference model.

A layout is a list of items placed in a 9 bit byte address space (word aligned):
  memword   reg32.MemWord / MemUWord                storage, byte strobes apply
  hwword    reg32.Word driven from hw_in ^ const    read-only from the bus
  reg       reg32.Register with MemField / MemUField / Field(=~memfield | hw_in slice) / FlagField
            + PushOnNotify.Read/.Write exported on ports
  array     reg32.Array[MemWord, a:b:step]
  regfile   nested reg32.RegFile (optionally two levels) of memwords
  memory    reg32.Memory (word_count possibly not a power of two / unaligned offset), mask modes
  inout     reg32.Input / reg32.Output wired to ports
The model gives, for a list of applied writes, the value every mapped word reads as.
"""
import random

HEADER = """from __future__ import annotations
import cohdl
from cohdl import Bit, BitVector, Signal, Unsigned, Null, Full, Port
from cohdl import std
from cohdl.std.axi import axi4_light as axi
from cohdl.std.reg import reg32
from cohdl.std.axi.axi4_light.interconnect import Interconnect
"""

ADDR_BITS = 9
M32 = 0xFFFFFFFF


def strobe_mask(strb):
    m = 0
    for i in range(4):
        if (strb >> i) & 1:
            m |= 0xFF << (8 * i)
    return m


class Item:
    def __init__(self, kind, name, off, words, **kw):
        self.kind, self.name, self.off, self.words = kind, name, off, words
        self.__dict__.update(kw)


class Layout:
    def __init__(self, seed, style='mixed'):
        self.rnd = random.Random(seed)
        # style 'interconnect': the map sits behind std.axi.axi4_light.interconnect.Interconnect in a 512 byte window
        # of a 1024 byte master address space (window_base 0 or 512); everything outside is answered by the background
        self.window_base = 0
        self.master_bits = ADDR_BITS
        if style == 'interconnect':
            self.master_bits = ADDR_BITS + 1
            self.window_base = self.rnd.choice([0, 1 << ADDR_BITS])
        self.items = []
        self.exports = []      # (port, width, kind, ref)   ports showing hardware-visible storage
        self.notes = []        # (port, item_name, 'rd'|'wr')
        self.flags = []        # (item_name, bit)
        self.style = style
        self.build()

    # ------------------------------------------------------------------ construction
    def build(self):
        r = self.rnd
        pos = 0          # in words
        limit = (1 << ADDR_BITS) // 4
        n = 0
        kinds = ['memword', 'memword', 'hwword', 'reg', 'reg', 'array', 'regfile', 'memory', 'memory', 'inout', 'creg', 'range', 'rom']
        if self.style == 'interconnect':
            kinds = ['memword', 'memword', 'hwword', 'reg', 'array', 'memory', 'creg', 'range']
        if self.style == 'words':
            kinds = ['memword', 'hwword', 'array', 'regfile']
        if r.random() < 0.35:
            pos = r.choice([6, 8, 12, 16])                # the low addresses of the map stay unmapped
        # one layout in three starts with a register file at an odd word position that holds a power-of-two sized
        # relative address range: aligned to its size inside the file, not aligned in absolute terms
        forced = ['regfile!'] if self.style != 'interconnect' and r.random() < 0.35 else []
        while pos < limit - 20 and n < 9:
            pos += r.choice([0, 0, 0, 1, 2, 3])           # gaps are unmapped
            k = forced.pop(0) if forced else r.choice(kinds)
            force_inner = k == 'regfile!'
            if force_inner:
                k = 'regfile'
                pos += 1 - pos % 2
            name = f"r{n}"
            n += 1
            if k == 'memword':
                self.items.append(Item(k, name, pos * 4, 1, unsigned=r.random() < 0.3))
                pos += 1
            elif k == 'hwword':
                self.items.append(Item(k, name, pos * 4, 1, const=r.getrandbits(32), vec=r.choice(['Word', 'Word', 'UWord', 'SWord'])))
                pos += 1
            elif k == 'creg':
                self.items.append(Item(k, name, pos * 4, 1))
                pos += 1
            elif k == 'range':
                words = r.choice([2, 3, 4, 8])
                if r.random() < 0.5:
                    pos = (pos + words - 1) // words * words
                self.items.append(Item(k, name, pos * 4, words, relative=r.random() < 0.5))
                pos += words
            elif k == 'rom':
                words = r.choice([2, 3, 4, 6])
                self.items.append(Item(k, name, pos * 4, words, initial=[r.getrandbits(32) for _ in range(words)], inline=r.random() < 0.5,
                                       mode=r.choice(['IMMEDIATE', 'SPLIT_WORDS'])))
                pos += words
            elif k == 'reg':
                self.items.append(self.gen_reg(name, pos * 4))
                pos += 1
            elif k == 'array':
                cnt = r.randint(2, 5)
                step = r.choice([1, 1, 2])
                self.items.append(Item(k, name, pos * 4, cnt * step, count=cnt, step=step))
                pos += cnt * step
            elif k == 'regfile':
                wc = 8 if force_inner else r.choice([2, 4, 4, 8])
                pos = (pos + wc - 1) // wc * wc if r.random() < 0.5 and not force_inner else pos
                members = sorted(r.sample(range(wc), r.randint(1, min(wc, 3))))
                nested = None
                if wc >= 4 and r.random() < 0.4 and not force_inner:
                    # a second level: 2-word file in the upper half
                    members = [m for m in members if m < wc // 2] or [0]
                    nested = (wc // 2, [0, 1] if r.random() < 0.5 else [1])
                inner_mem = None
                if wc == 8 and nested is None and r.random() < 0.5:
                    # a memory / address range inside the register file (its addresses are relative to the file's global offset)
                    members = [m for m in members if m < 4] or [0]
                    inner_mem = (4, r.choice([2, 3, 4]), r.choice(['memory', 'range']))
                if force_inner:
                    members = [m for m in members if m < 4] or [0]
                    inner_mem = (4, r.choice([2, 4]), 'range')
                inner_arr = None
                if wc == 8 and nested is None and inner_mem is None and r.random() < 0.6:
                    # an array of words inside the register file (element addresses are relative to the file, like every member)
                    members = [m for m in members if m < 4] or [0]
                    inner_arr = (4, *r.choice([(2, 1), (3, 1), (4, 1), (2, 2)]))
                self.items.append(Item(k, name, pos * 4, wc, members=members, nested=nested, inner_mem=inner_mem, inner_arr=inner_arr))
                pos += wc
            elif k == 'memory':
                words = r.choice([2, 3, 4, 5, 6, 8])
                if r.random() < 0.5:
                    pos = (pos + words - 1) // words * words       # sometimes aligned to its size
                mode = r.choice(['IMMEDIATE', 'IMMEDIATE', 'READBACK', 'SPLIT_WORDS', 'IGNORE'])
                inline = r.random() < 0.3 and mode != 'READBACK'
                init = [r.getrandbits(32) for _ in range(words)] if r.random() < 0.6 else None
                self.items.append(Item(k, name, pos * 4, words, mode=mode, inline=inline, initial=init))
                pos += words
            elif k == 'inout':
                self.items.append(Item('input', name, pos * 4, 1, width=r.choice([32, 16, 8]), lsbs=r.random() < 0.5))
                pos += 1
                name2 = f"r{n}"
                n += 1
                self.items.append(Item('output', name2, pos * 4, 1))
                pos += 1

    def gen_reg(self, name, off):
        r = self.rnd
        prev = [it for it in self.items if it.kind == 'reg' and any(f['kind'] in ('mem', 'memu') for f in it.fields)]
        if prev and r.random() < 0.4:
            # the same field shapes as an earlier register, but other defaults (field types are cached templates: the default
            # is part of what distinguishes them)
            import copy
            fields = copy.deepcopy(r.choice(prev).fields)
            for f in fields:
                if f['kind'] in ('mem', 'memu'):
                    f['default'] = (f['default'] + r.randint(1, (1 << f['w']) - 1)) % (1 << f['w']) if f['w'] > 1 else 1 - f['default']
            return Item('reg', name, off, 1, fields=fields, flag=None, rdn=False, wrn=False)
        fields = []
        bit = 0
        fi = 0
        mems = []
        while bit < 31 and fi < 5:
            bit += r.choice([0, 0, 1, 3])
            w = r.choice([1, 2, 4, 4, 8, 8, 12])
            if bit + w > 31:
                break
            kind = r.choice(['mem', 'mem', 'memu', 'inv', 'hw'])
            if kind == 'inv':
                same = [f for f in mems if f['w'] == w]
                if not same:
                    kind = 'mem'
            f = {'name': f"f{fi}", 'kind': kind, 'lo': bit, 'w': w}
            if kind in ('mem', 'memu'):
                f['default'] = r.choice([0, (1 << w) - 1, r.getrandbits(w)])
                mems.append(f)
            elif kind == 'inv':
                f['src'] = r.choice(same)['name']
            else:
                f['hwlo'] = r.randrange(0, 32 - w + 1)
            fields.append(f)
            fi += 1
            bit += w
        flag = None
        if bit <= 31 and r.random() < 0.6:
            flag = r.randint(max(bit, 24), 31) if bit <= 31 else None
        return Item('reg', name, off, 1, fields=fields, flag=flag, rdn=r.random() < 0.6, wrn=r.random() < 0.6)

    # ------------------------------------------------------------------ source
    def source(self, cname):
        L = [HEADER]
        root = []
        cfg = []
        conc = []
        ports = []
        exports = []
        for it in self.items:
            n = it.name
            if it.kind == 'memword':
                root.append(f"    {n}: reg32.{'MemUWord' if it.unsigned else 'MemWord'}[0x{it.off:x}]")
                ports.append(f"    x_{n} = Port.output(BitVector[32])")
                exports.append(f"            self.x_{n} <<= root.{n}.val(){'.bitvector' if it.unsigned else ''}")
                self.exports.append((f"x_{n}", 32, it.name, None))
            elif it.kind == 'hwword':
                root.append(f"    {n}: reg32.{it.vec}[0x{it.off:x}]")
                view = {'Word': '', 'UWord': '.unsigned', 'SWord': '.signed'}[it.vec]
                conc.append(f"        self.{n} <<= (self._top.hw_in ^ BitVector[32](Unsigned[32]({it.const}))){view}")
            elif it.kind == 'reg':
                L.append(f"class Reg_{n}(reg32.Register):")
                for f in it.fields:
                    rng = f"{f['lo'] + f['w'] - 1}:{f['lo']}" if f['w'] > 1 else f"{f['lo']}"
                    if f['kind'] == 'mem':
                        d = 'Null' if f['default'] == 0 else ('Full' if f['default'] == (1 << f['w']) - 1 else
                                                             (f"BitVector[{f['w']}](Unsigned[{f['w']}]({f['default']}))" if f['w'] > 1 else f"Bit({f['default']})"))
                        L.append(f"    {f['name']}: reg32.MemField[{rng}, {d}]")
                    elif f['kind'] == 'memu':
                        if f['w'] == 1:
                            f['kind'] = 'mem'
                            L.append(f"    {f['name']}: reg32.MemField[{rng}, Bit({f['default']})]")
                        else:
                            L.append(f"    {f['name']}: reg32.MemUField[{rng}, Unsigned[{f['w']}]({f['default']})]")
                    else:
                        L.append(f"    {f['name']}: reg32.Field[{rng}]")
                if it.flag is not None:
                    L.append(f"    fl: reg32.FlagField[{it.flag}]")
                    self.flags.append((n, it.flag))
                if it.rdn:
                    L.append("    rdn: reg32.PushOnNotify.Read")
                if it.wrn:
                    L.append("    wrn: reg32.PushOnNotify.Write")
                L.append("    def _config_(self, top):")
                L.append("        self._top = top")
                body = []
                for f in it.fields:
                    if f['kind'] == 'inv':
                        body.append(f"        self.{f['name']} <<= ~self.{f['src']}.val(){'.bitvector' if self.field(it, f['src'])['kind'] == 'memu' else ''}")
                    elif f['kind'] == 'hw':
                        sl = f"[{f['hwlo'] + f['w'] - 1}:{f['hwlo']}]" if f['w'] > 1 else f"[{f['hwlo']}]"
                        body.append(f"        self.{f['name']} <<= self._top.hw_in{sl}")
                    else:
                        pn = f"x_{n}_{f['name']}"
                        ports.append(f"    {pn} = Port.output({'BitVector[' + str(f['w']) + ']' if f['w'] > 1 else 'Bit'})")
                        body.append(f"        self._top.{pn} <<= self.{f['name']}.val(){'.bitvector' if f['kind'] == 'memu' else ''}")
                        self.exports.append((pn, f['w'], it.name, f['name']))
                if it.rdn:
                    ports.append(f"    n_{n}_rd = Port.output(Bit)")
                    body.append(f"        self._top.n_{n}_rd <<= bool(self.rdn)")
                    self.notes.append((f"n_{n}_rd", n, 'rd'))
                if it.wrn:
                    ports.append(f"    n_{n}_wr = Port.output(Bit)")
                    body.append(f"        self._top.n_{n}_wr <<= bool(self.wrn)")
                    self.notes.append((f"n_{n}_wr", n, 'wr'))
                if body:
                    L.append("    def _impl_concurrent_(self):")
                    L += body
                if it.flag is not None:
                    L.append("    def _impl_sequential_(self):")
                    L.append("        if self._top.hw_clear:")
                    L.append("            self.fl.clear()")
                L.append("")
                root.append(f"    {n}: Reg_{n}[0x{it.off:x}]")
                cfg.append(f"        self.{n}._config_(top)")
            elif it.kind == 'creg':
                L += [f"class Cnt_{n}(reg32.Register):",
                      "    data: reg32.MemField[7:0, Null]",
                      "    rd_push: reg32.UField[15:8, Null]",
                      "    wr_push: reg32.UField[23:16, Null]",
                      "    rd_flag: reg32.UField[27:24, Null]",
                      "    wr_flag: reg32.UField[31:28, Null]",
                      "    n_rp: reg32.PushOnNotify.Read",
                      "    n_wp: reg32.PushOnNotify.Write",
                      "    n_rf: reg32.FlagOnNotify.Read",
                      "    n_wf: reg32.FlagOnNotify.Write",
                      "    def _impl_(self, ctx):",
                      "        @ctx",
                      "        def p_push():",
                      "            if self.n_rp:",
                      "                self.rd_push <<= self.rd_push.val() + 1",
                      "            if self.n_wp:",
                      "                self.wr_push <<= self.wr_push.val() + 1",
                      "        @ctx",
                      "        async def p_rf():",
                      "            async with self.n_rf:",
                      "                self.rd_flag <<= self.rd_flag.val() + 1",
                      "        @ctx",
                      "        async def p_wf():",
                      "            await cohdl.expr(bool(self.n_wf))",
                      "            self.wr_flag <<= self.wr_flag.val() + 1",
                      "            self.n_wf.clear()",
                      ""]
                root.append(f"    {n}: Cnt_{n}[0x{it.off:x}]")
            elif it.kind == 'range':
                L += [f"class Rng_{n}(reg32.AddrRange, word_count={it.words}):",
                      "    def _config_(self, top):",
                      "        self._top = top"]
                if it.relative:
                    L += ["    def _on_read_relative_(self, addr):",
                          "        return std.leftpad(addr, 32)",
                          "    def _on_write_relative_(self, addr, data, mask):"]
                else:
                    L += ["    def _on_read_(self, addr):",
                          "        return std.leftpad(addr, 32)",
                          "    def _on_write_(self, addr, data, mask):"]
                L += [f"        self._top.x_{n}_a <<= std.leftpad(addr, 32)",
                      f"        self._top.x_{n}_d <<= mask.apply(self._top.x_{n}_d, data)",
                      ""]
                ports.append(f"    x_{n}_a = Port.output(BitVector[32], default=Null)")
                ports.append(f"    x_{n}_d = Port.output(BitVector[32], default=Null)")
                self.exports.append((f"x_{n}_a", 32, it.name, '@a'))
                self.exports.append((f"x_{n}_d", 32, it.name, '@d'))
                root.append(f"    {n}: Rng_{n}[0x{it.off:x}]")
                cfg.append(f"        self.{n}._config_(top)")
            elif it.kind == 'rom':
                L += [f"class Rom_{n}(reg32.RoMemory, word_count={it.words}):", "    pass", ""]
                root.append(f"    {n}: Rom_{n}[0x{it.off:x}]")
                init = '[' + ', '.join(f"BitVector[32](Unsigned[32]({v}))" for v in it.initial) + ']'
                cfg.append(f"        self.{n}._config_({init}, mask_mode=reg32.Memory.MaskMode.{it.mode}, inline={it.inline})")
            elif it.kind == 'array':
                root.append(f"    {n}: reg32.Array[reg32.MemWord, 0x{it.off:x}:0x{it.off + it.count * it.step * 4:x}:{it.step * 4}]")
            elif it.kind == 'regfile':
                if it.nested:
                    noff, nm = it.nested
                    L.append(f"class Sub2_{n}(reg32.RegFile, word_count=2):")
                    for m in nm:
                        L.append(f"    n{m}: reg32.MemWord[0x{m * 4:x}]")
                    L.append("")
                if getattr(it, 'inner_mem', None):
                    moff, mwords, mkind = it.inner_mem
                    if mkind == 'memory':
                        L += [f"class MemIn_{n}(reg32.Memory, word_count={mwords}):", "    pass", ""]
                        cfg.append(f"        self.{n}.mem._config_(initial=Null)")
                    else:
                        L += [f"class MemIn_{n}(reg32.AddrRange, word_count={mwords}):",
                              "    def _config_(self, top):", "        self._top = top",
                              "    def _on_read_relative_(self, addr):", "        return std.leftpad(addr, 32)",
                              "    def _on_write_relative_(self, addr, data, mask):",
                              f"        self._top.x_{n}_a <<= std.leftpad(addr, 32)", ""]
                        ports.append(f"    x_{n}_a = Port.output(BitVector[32], default=Null)")
                        self.exports.append((f"x_{n}_a", 32, it.name, '@ia'))
                        cfg.append(f"        self.{n}.mem._config_(top)")
                L.append(f"class Sub_{n}(reg32.RegFile, word_count={it.words}):")
                if getattr(it, 'inner_mem', None):
                    L.append(f"    mem: MemIn_{n}[0x{it.inner_mem[0] * 4:x}]")
                if getattr(it, 'inner_arr', None):
                    aoff, acnt, astep = it.inner_arr
                    L.append(f"    arr: reg32.Array[reg32.MemWord, 0x{aoff * 4:x}:0x{(aoff + acnt * astep) * 4:x}:{astep * 4}]")
                for m in it.members:
                    L.append(f"    m{m}: reg32.MemWord[0x{m * 4:x}]")
                if it.nested:
                    L.append(f"    inner: Sub2_{n}[0x{it.nested[0] * 4:x}]")
                L.append("")
                root.append(f"    {n}: Sub_{n}[0x{it.off:x}]")
            elif it.kind == 'memory':
                L.append(f"class Mem_{n}(reg32.Memory, word_count={it.words}):")
                L.append("    pass")
                L.append("")
                root.append(f"    {n}: Mem_{n}[0x{it.off:x}]")
                init = 'Null' if it.initial is None else '[' + ', '.join(f"BitVector[32](Unsigned[32]({v}))" for v in it.initial) + ']'
                cfg.append(f"        self.{n}._config_(initial={init}, mask_mode=reg32.Memory.MaskMode.{it.mode}, inline={it.inline})")
            elif it.kind == 'input':
                root.append(f"    {n}: reg32.Input[0x{it.off:x}]")
                ports.append(f"    i_{n} = Port.input(BitVector[{it.width}])")
                if it.width == 32:
                    cfg.append(f"        self.{n}._config_(top.i_{n})")
                else:
                    cfg.append(f"        self.{n}._config_(top.i_{n}, {'lsbs' if it.lsbs else 'msbs'}=True)")
            elif it.kind == 'output':
                root.append(f"    {n}: reg32.Output[0x{it.off:x}]")
                ports.append(f"    x_{n} = Port.output(BitVector[32], default=Null)")
                cfg.append(f"        self.{n}._config_(top.x_{n})")
                self.exports.append((f"x_{n}", 32, it.name, None))
        L.append(f"class Root(reg32.AddrMap, word_count={(1 << ADDR_BITS) // 4}):")
        L += root
        L.append("    def _config_(self, top):")
        L.append("        self._top = top")
        L += cfg
        if conc:
            L.append("    def _impl_concurrent_(self):")
            L += conc
        L.append("")
        L.append(f"class {cname}(axi.base_entity(addr_width={self.master_bits})):")
        L.append("    hw_in = Port.input(BitVector[32])")
        L.append("    hw_clear = Port.input(Bit)")
        L += ports
        L.append("    def architecture(self):")
        L.append("        root = Root(self)")
        if self.style == 'interconnect':
            L.append("        ic = Interconnect(self.interface_connection())")
            L.append(f"        window = ic.reserve({self.window_base}, {1 << ADDR_BITS}, prefix='win_')")
            L.append("        window.connect_addr_map(root)")
        else:
            L.append("        self.interface_connection().connect_addr_map(root)")
        if exports:
            L.append("        @std.concurrent")
            L.append("        def exports():")
            L += exports
        return '\n'.join(L) + '\n'

    def field(self, it, name):
        return next(f for f in it.fields if f['name'] == name)

    # ------------------------------------------------------------------ model
    def mapped_words(self):
        """{master byte address: (item, index)} for every mapped word"""
        return {a + self.window_base: v for a, v in self._mapped_words().items()}

    def _mapped_words(self):
        m = {}
        for it in self.items:
            if it.kind in ('memword', 'hwword', 'reg', 'input', 'output', 'creg'):
                m[it.off] = (it, 0)
            elif it.kind in ('range', 'rom'):
                for i in range(it.words):
                    m[it.off + i * 4] = (it, i)
            elif it.kind == 'array':
                for i in range(it.count):
                    m[it.off + i * it.step * 4] = (it, i)
            elif it.kind == 'regfile':
                for k in it.members:
                    m[it.off + k * 4] = (it, k)
                if it.nested:
                    noff, nm = it.nested
                    for k in nm:
                        m[it.off + (noff + k) * 4] = (it, noff + k)
                if getattr(it, 'inner_mem', None):
                    moff, mwords, mkind = it.inner_mem
                    for k in range(mwords):
                        m[it.off + (moff + k) * 4] = (it, ('mem', k))
                if getattr(it, 'inner_arr', None):
                    aoff, acnt, astep = it.inner_arr
                    for k in range(acnt):
                        m[it.off + (aoff + k * astep) * 4] = (it, aoff + k * astep)
            elif it.kind == 'memory':
                for i in range(it.words):
                    m[it.off + i * 4] = (it, i)
        return m


class Model:
    """software-visible state; apply(write) / read(addr, env)"""

    def __init__(self, layout):
        self.lay = layout
        self.map = layout.mapped_words()
        self.store = {}
        self.wcnt = {}         # completed writes per counter register
        self.rcnt = {}         # completed reads per counter register (shared by all copies: reads are not part of write prefixes)
        for a, (it, i) in self.map.items():
            if it.kind in ('memword', 'array', 'regfile'):
                self.store[a] = 0
            elif it.kind == 'memory':
                self.store[a] = it.initial[i] if it.initial is not None else 0
            elif it.kind == 'output':
                self.store[a] = 0
            elif it.kind == 'rom':
                self.store[a] = it.initial[i]
            elif it.kind == 'creg':
                self.store[a] = 0
            elif it.kind == 'range':
                self.store[('rng', it.name)] = (0, 0)        # last written (address, data as merged on the port)
            if it.kind == 'regfile' and getattr(it, 'inner_mem', None) and it.inner_mem[2] == 'range':
                self.store[('irng', it.name)] = 0            # last written relative address of the inner range
            elif it.kind == 'reg':
                v = 0
                for f in it.fields:
                    if f['kind'] in ('mem', 'memu'):
                        v |= f['default'] << f['lo']
                self.store[a] = v          # mem fields only (+ flag bit)

    def copy(self):
        m = Model.__new__(Model)
        m.lay, m.map = self.lay, self.map
        m.store = dict(self.store)
        m.wcnt = dict(self.wcnt)
        m.rcnt = self.rcnt
        return m

    def write(self, addr, data, strb):
        ent = self.map.get(addr)
        if ent is None:
            return
        it, i = ent
        mask = strobe_mask(strb)
        if it.kind == 'regfile' and i.__class__ is tuple and it.inner_mem[2] == 'range':
            self.store[('irng', it.name)] = i[1] * 4         # relative to the base of the inner range
            return
        if it.kind in ('memword', 'array', 'regfile', 'output'):
            self.store[addr] = (self.store[addr] & ~mask | data & mask) & M32
        elif it.kind == 'memory':
            if it.mode == 'IGNORE':
                mask = M32             # documented: the mask parameter is ignored
            self.store[addr] = (self.store[addr] & ~mask | data & mask) & M32
        elif it.kind == 'creg':
            self.wcnt[addr] = self.wcnt.get(addr, 0) + 1
            m8 = mask & 0xFF
            self.store[addr] = self.store[addr] & ~m8 | data & m8
        elif it.kind == 'range':
            seen = (addr - self.lay.window_base) - (it.off if it.relative else 0)
            old = self.store[('rng', it.name)][1]
            self.store[('rng', it.name)] = (seen, (old & ~mask | data & mask) & M32)
        elif it.kind == 'reg':
            v = self.store[addr]
            for f in it.fields:
                if f['kind'] in ('mem', 'memu'):
                    fm = ((1 << f['w']) - 1) << f['lo']
                    fm &= mask
                    v = v & ~fm | data & fm
            if it.flag is not None and (mask >> it.flag) & 1 and (data >> it.flag) & 1:
                v |= 1 << it.flag
            self.store[addr] = v & M32

    def clear_flags(self):
        for a, (it, i) in self.map.items():
            if it.kind == 'reg' and it.flag is not None:
                self.store[a] &= ~(1 << it.flag)

    def read(self, addr, hw_in, inputs):
        ent = self.map.get(addr)
        if ent is None:
            return 0
        it, i = ent
        if it.kind == 'regfile' and i.__class__ is tuple and it.inner_mem[2] == 'range':
            return i[1] * 4
        if it.kind in ('memword', 'array', 'regfile', 'memory', 'rom'):
            return self.store[addr]
        if it.kind == 'range':
            return (addr - self.lay.window_base) - (it.off if it.relative else 0)
        if it.kind == 'creg':
            rc, wc = self.rcnt.get(addr, 0), self.wcnt.get(addr, 0)
            return self.store[addr] | (rc & 0xFF) << 8 | (wc & 0xFF) << 16 | (rc & 0xF) << 24 | (wc & 0xF) << 28
        if it.kind == 'output':
            return 0            # write-only
        if it.kind == 'hwword':
            return hw_in ^ it.const
        if it.kind == 'input':
            v = inputs.get(f"i_{it.name}", 0)
            return v if it.width == 32 or it.lsbs else v << (32 - it.width)
        v = self.store[addr]
        for f in it.fields:
            m = (1 << f['w']) - 1
            if f['kind'] == 'inv':
                s = self.lay.field(it, f['src'])
                v |= (~(self.store[addr] >> s['lo']) & m) << f['lo']
            elif f['kind'] == 'hw':
                v |= ((hw_in >> f['hwlo']) & m) << f['lo']
        return v

    def care_mask(self, addr):
        """bits of a read that are compared while traffic is in flight (event counters are compared at quiescence only)"""
        ent = self.map.get(addr)
        return 0xFF if ent is not None and ent[0].kind == 'creg' else M32

    def export_value(self, port):
        for p, w, iname, fname in self.lay.exports:
            if p == port:
                it = next(x for x in self.lay.items if x.name == iname)
                if fname == '@ia':
                    return self.store[('irng', iname)]
                if fname in ('@a', '@d'):
                    return self.store[('rng', iname)][0 if fname == '@a' else 1]
                v = self.store[it.off + self.lay.window_base]
                if fname is None:
                    return v
                f = self.lay.field(it, fname)
                return (v >> f['lo']) & ((1 << f['w']) - 1)
        raise KeyError(port)
