"""vsim: an instrumented interpreter for the VHDL that CoHDL emits  (DESIGN.md 1.1, appendices B-D).

It plays the role a sanitizer plays for native code: it *executes* the emitted design and, while
doing so, performs checks that a plain simulator would not:

  static (at elaboration, reported in Sim.issues -- the conformance checker "vcheck"):
     identifier legality, declare-once per declarative region (case-insensitive), hiding of
     predefined names, static typing of every expression / assignment / association / choice
     under std_logic_1164 + numeric_std overloads, mode rules, case/select completeness,
     sensitivity lists, driver ownership (one driver group per signal bit).
  dynamic (while running, reported in Sim.events):
     read of a compiler temporary before it was written in the same activation (poison),
     VHDL run-time errors (length, index, natural range, division by zero, integer overflow),
     reads of uninitialised scalars, failed assert statements, metavalue uses.

Values: std_logic and vectors are Python ints when fully defined, `Meta(v, m)` when some bits are
'U'/'X' (m = mask of unknown bits).  boolean -> bool, integer -> int, enum -> position, array ->
tuple of element values.  A vector's leftmost element is the most significant bit of the int.
"""
from collections import Counter
from .vparse import parse, VhdlSyntaxError, VHDL_LATER_RESERVED


class Unsupported(Exception):
    """construct outside the emitted subset (reported as inconclusive, never as a violation)"""


class ElabError(Exception):
    """the text cannot be elaborated at all (e.g. instantiates a missing entity)"""


class Meta:
    __slots__ = ('v', 'm', 'poison')

    def __init__(self, v, m, poison=False):
        self.v = v & ~m
        self.m = m
        self.poison = poison

    def __eq__(self, o):
        return o.__class__ is Meta and o.v == self.v and o.m == self.m

    def __hash__(self):
        return hash((self.v, self.m))

    def __repr__(self):
        return f"Meta(v={self.v:#x}, m={self.m:#x}{', poison' if self.poison else ''})"


class Uninit:
    """value of a boolean / integer / enum / array object that was never assigned"""
    __slots__ = ('default', 'poison')

    def __init__(self, default, poison=False):
        self.default = default
        self.poison = poison

    def __eq__(self, o):
        return o.__class__ is Uninit and o.default == self.default

    def __hash__(self):
        return hash(('uninit', self.default if not isinstance(self.default, list) else 0))

    def __repr__(self):
        return f"Uninit({self.default!r}{', poison' if self.poison else ''})"


def mk(v, m):
    if m:
        return Meta(v, m)
    return v


def mask(w):
    return (1 << w) - 1


def sval(v, w):
    return v - (1 << w) if (v >> (w - 1)) & 1 else v


SL = ('sl',)
BOOL = ('bool',)
INT = ('int',)
STR = ('str',)
ANY = ('any',)
VEC = ('slv', 'u', 's')
VEC_NAME = {'std_logic_vector': 'slv', 'unsigned': 'u', 'signed': 's'}
NAME_VEC = {v: k for k, v in VEC_NAME.items()}

PREDEF_FUNCS = {'resize', 'shift_left', 'shift_right', 'to_integer', 'to_unsigned', 'to_signed',
                'rising_edge', 'falling_edge', 'rotate_left', 'rotate_right', 'std_match',
                'to_01', 'is_x', 'to_x01', 'to_bit', 'to_stdulogic', 'to_bitvector', 'to_stdlogicvector'}
PREDEF_TYPES = {'std_logic', 'std_ulogic', 'std_logic_vector', 'std_ulogic_vector', 'unsigned', 'signed',
                'boolean', 'integer', 'natural', 'positive', 'bit', 'bit_vector', 'string', 'character',
                'real', 'time', 'severity_level'}
PREDEF_LITS = {'true', 'false', 'note', 'warning', 'error', 'failure'}
PREDEF_OTHER = {'ieee', 'work', 'std', 'std_logic_1164', 'numeric_std', 'standard'}
PREDEF_ALL = PREDEF_FUNCS | PREDEF_TYPES | PREDEF_LITS

INT_MIN = -(1 << 31)
INT_MAX = (1 << 31) - 1


def tname(t):
    k = t[0]
    if k in VEC:
        return f"{NAME_VEC[k]}[{t[1]}]"
    if k == 'lit':
        return f"string-literal[{t[1]}]"
    if k == 'enum':
        return f"enum {t[1]}"
    if k == 'arr':
        return f"array {t[1]}"
    return {'sl': 'std_logic', 'bool': 'boolean', 'int': 'integer', 'any': '?', 'str': 'string'}.get(k, k)


def width(t):
    if t[0] == 'sl':
        return 1
    return t[1]


class Env:
    """one declarative region; `parent` is the enclosing one"""

    def __init__(self, parent=None, what=''):
        self.parent = parent
        self.names = {}       # lower name -> entry
        self.spelling = {}    # lower name -> spelling at declaration
        self.what = what

    def lookup(self, n):
        e = self
        while e is not None:
            r = e.names.get(n)
            if r is not None:
                return r
            e = e.parent
        return None


class Sim:
    def __init__(self, text, top=None, temporaries=None, poison=True, parsed=None, init=None):
        """temporaries: optional {(entity_lower, process_label_lower|None, name_lower)} of objects that are
        compiler temporaries (poisoned at the start of each activation)."""
        self.issues = []            # static conformance findings: (kind, detail)
        self.warnings = []
        self.events = Counter()     # dynamic events
        self.event_samples = {}
        self.temporaries = temporaries
        self.poison = poison
        if parsed is None:
            parsed = parse(text)
        units, lex_issues, self.group_names = parsed
        for k, t, ln in lex_issues:
            self.issue(k, f"{t!r} line {ln}")
        self.entities = {}
        self.archs = {}
        self.unit_order = []
        for u in units:
            if u[0] == 'entity':
                key = u[1].lower()
                if key in self.entities:
                    self.issue('duplicate-design-unit', f"entity {u[1]}")
                self.entities[key] = u
                self.unit_order.append(('entity', key))
                if u[5] is not None and u[5].lower() != key:
                    self.issue('end-name-mismatch', f"entity {u[1]} ends with {u[5]}")
            else:
                key = u[2].lower()
                if key in self.archs:
                    self.issue('duplicate-design-unit', f"architecture of {u[2]}")
                if key not in self.entities:
                    self.issue('architecture-of-unknown-entity', f"{u[1]} of {u[2]}")
                self.archs[key] = u
                self.unit_order.append(('arch', key))
                if u[6] is not None and u[6].lower() != u[1].lower():
                    self.issue('end-name-mismatch', f"architecture {u[1]} ends with {u[6]}")
        if top is None:
            ents = [k for kind, k in self.unit_order if kind == 'entity']
            if not ents:
                raise ElabError("no entity in text")
            top = ents[-1]
        self.top_name = top.lower()
        # value stores
        self.S = []
        self.sigtype = []
        self.signame = []
        self.V = []
        self.vartype = []
        self.varname = []
        self.sched = {}
        self.procs = []         # list of Proc
        self.sens = {}          # sid -> [proc index]
        self.sens_mask = {}     # (sid, proc index) -> bit mask, for sensitivity entries that name elements of a vector
        self.event = frozenset()
        self.prev = {}
        self.drivers = {}       # sid -> {driver_id: mask}
        self.driver_names = {}
        self.asserts_failed = []
        self.poison_vars = []   # (vidx, poison value)
        self.delta_limit = 1000
        self.elab_stack = []
        self.insts = {}         # path -> InstInfo
        self.state_signals = []
        self.top = self.elaborate(self.top_name, None, '')
        self.check_drivers()
        self.initial_S = None
        # the test bench drives the inputs from time 0 (otherwise 'U' inputs trigger e.g. active-low resets)
        for n, v in (init or {}).items():
            self.S[self.top['sig'][n.lower()]] = v
        self.settle(initial=True)

    # ------------------------------------------------------------------ reporting
    def issue(self, kind, detail):
        self.issues.append((kind, detail))

    def warn(self, kind, detail):
        self.warnings.append((kind, detail))

    def ev(self, kind, detail=None):
        self.events[kind] += 1
        if detail is not None and kind not in self.event_samples:
            self.event_samples[kind] = detail

    # ------------------------------------------------------------------ elaboration
    def new_sig(self, name, t, v):
        self.S.append(v)
        self.sigtype.append(t)
        self.signame.append(name)
        return len(self.S) - 1

    def new_var(self, name, t, v):
        self.V.append(v)
        self.vartype.append(t)
        self.varname.append(name)
        return len(self.V) - 1

    def default_value(self, t):
        k = t[0]
        if k == 'sl':
            return Meta(0, 1)
        if k in VEC:
            return Meta(0, mask(t[1])) if t[1] else 0
        if k == 'bool':
            return Uninit(False)
        if k == 'int':
            return Uninit(INT_MIN)
        if k == 'enum':
            return Uninit(0)
        if k == 'arr':
            return tuple(self.default_value(t[3]) for _ in range(t[2]))
        return Uninit(0)

    def poison_value(self, t):
        k = t[0]
        if k == 'sl':
            return Meta(0, 1, True)
        if k in VEC:
            return Meta(0, mask(t[1]), True)
        if k == 'bool':
            return Uninit(False, True)
        if k == 'int':
            return Uninit(INT_MIN, True)
        if k == 'arr':
            return tuple(self.poison_value(t[3]) for _ in range(t[2]))
        return Uninit(0, True)

    def check_ident(self, name, where):
        nl = name.lower()
        if nl in VHDL_LATER_RESERVED:
            self.warn('reserved-in-later-vhdl', f"{name} ({where})")

    def declare(self, env, name, entry, where):
        nl = name.lower()
        self.check_ident(name, where)
        if entry[0] == 'enumlit':
            # enumeration literals are overloadable: two literals of different types may share a name
            old = env.names.get(nl)
            if old is not None and old[0] == 'enumlits' and all(o[0] != entry[1] for o in old[1]):
                old[1].append((entry[1], entry[2]))
                return
            entry = ('enumlits', [(entry[1], entry[2])])
        if nl in env.names:
            self.issue('duplicate-declaration', f"{name} (also {env.spelling[nl]}) in {where}")
        env.names[nl] = entry
        env.spelling[nl] = name

    def mk_type(self, env, st, where):
        n = st[0].lower()
        ent = env.lookup(n)
        if ent is not None and ent[0] != 'type':
            self.issue('hides-predefined' if n in PREDEF_TYPES else 'not-a-type',
                       f"type mark {st[0]} denotes an object in {where}")
            ent = None
        if ent is not None:
            if len(st) != 1:
                raise Unsupported(f"constrained user type {st}")
            return ent[1]
        if n in ('std_logic', 'std_ulogic'):
            if len(st) != 1:
                self.issue('type-error', f"constraint on {st[0]} in {where}")
            return SL
        if n == 'boolean':
            return BOOL
        if n in ('integer', 'natural', 'positive'):
            return INT
        if n == 'string':
            return STR
        if n in VEC_NAME:
            if len(st) == 1:
                self.issue('unconstrained-object', f"{st[0]} without range in {where}")
                return ANY
            a = self.static_int(env, st[1], where)
            b = self.static_int(env, st[3], where)
            d = st[2]
            if d == 'downto':
                w = a - b + 1
                lo = b
            else:
                w = b - a + 1
                lo = a
            if w < 0:
                w = 0
            if w == 0:
                self.warn('null-range', f"{st} in {where}")
            if lo != 0:
                raise Unsupported(f"vector range not ending at 0: {st}")
            return (VEC_NAME[n], w, d)
        self.issue('undeclared-type', f"{st[0]} in {where}")
        return ANY

    def static_int(self, env, node, where):
        t, fn, st = self.cx(node, env, INT, None)
        if t[0] not in ('int', 'any') or st is None:
            self.issue('type-error', f"static integer expected in {where}")
            return 0
        return st[0]

    def elaborate(self, ename, portmap, path):
        """portmap: None for the top, else {formal_lower: sid}"""
        key = ename.lower()
        if key not in self.entities:
            raise ElabError(f"entity {ename} not found")
        if key not in self.archs:
            raise ElabError(f"no architecture for entity {ename}")
        if key in self.elab_stack:
            raise ElabError(f"recursive instantiation of {ename}")
        self.elab_stack.append(key)
        ent = self.entities[key]
        arch = self.archs[key]
        if not hasattr(self, 'insts_done'):
            self.insts_done = set()
        # static issues are reported once per entity, not once per instance
        quiet = key in self.insts_done
        self.insts_done.add(key)
        saved_issues = self.issues
        saved_warn = self.warnings
        if quiet:
            self.issues = []
            self.warnings = []
        try:
            info = self._elab_body(ent, arch, portmap, path)
        finally:
            if quiet:
                self.issues = saved_issues
                self.warnings = saved_warn
            self.elab_stack.pop()
        return info

    def _elab_body(self, ent, arch, portmap, path):
        ename = ent[1]
        env = Env(None, f"entity {ename}")
        info = {'name': ename, 'ports': [], 'sig': {}, 'env': env, 'path': path}
        self.insts[path] = info
        if ent[2]:
            raise Unsupported("generics")
        for (n, mode, st, dflt, ln) in ent[3]:
            t = self.mk_type(env, st, f"port {n} of {ename}")
            if mode == 'buffer':
                raise Unsupported("buffer port")
            if portmap is not None and n.lower() in portmap:
                sid = portmap[n.lower()]
            else:
                sid = self.new_sig(path + n, t, self.default_value(t))
            self.declare(env, n, ('sig', sid, t, mode), f"entity {ename}")
            info['ports'].append((n, mode, t))
            info['sig'][n.lower()] = sid
        # the architecture's declarative region is the same region as the entity's
        where = f"architecture {arch[1]} of {ename}"
        for d in arch[3]:
            self.declare_item(env, d, path, where, None, info)
        # labels are declared in the architecture region as well
        for st in arch[4]:
            if st[0] in ('process', 'inst') and st[1] is not None:
                self.declare(env, st[1], ('label',), where)
        for st in arch[4]:
            k = st[0]
            if k == 'process':
                self.elab_process(env, st, path, info)
            elif k in ('cassign', 'select'):
                self.elab_concurrent(env, st, path, info)
            elif k == 'inst':
                self.elab_instance(env, st, path, info)
            elif k == 'assert':
                ctx = Sim.Ctx(f"concurrent assert line {st[3]} of {info['name']}", set())
                run = self.c_stmt(st, env, ctx)
                self.add_proc(ctx.where, run, set(ctx.reads), ctx, ('concurrent', path, -st[3]))
            else:
                raise Unsupported(k)
        return info

    def declare_item(self, env, d, path, where, proc, info):
        k = d[0]
        if k == 'enum':
            lits = tuple(x.lower() for x in d[2])
            t = ('enum', d[1].lower(), lits)
            self.declare(env, d[1], ('type', t), where)
            for i, l in enumerate(d[2]):
                self.declare(env, l, ('enumlit', t, i), where)
        elif k == 'array':
            lo = self.static_int(env, d[2], where)
            hi = self.static_int(env, d[4], where)
            if d[3] != 'to' or lo != 0:
                raise Unsupported("array range other than 0 to N")
            el = self.mk_type(env, d[5], where)
            t = ('arr', d[1].lower(), hi + 1, el)
            self.declare(env, d[1], ('type', t), where)
        elif k == 'function':
            if d[1].lower() != 'cohdl_bool_to_std_logic':
                raise Unsupported(f"function {d[1]}")
            self.declare(env, d[1], ('func', 'cohdl_bool_to_std_logic'), where)
        elif k == 'attribute':
            raise Unsupported("attribute")
        elif k in ('signal', 'constant'):
            if proc is not None and k == 'signal':
                self.issue('signal-in-process', f"{d[1]} in {where}")
            t = self.mk_type(env, d[2], f"{k} {d[1]} in {where}")
            v = self.default_value(t)
            if d[3] is not None:
                v = self.init_value(env, d[3], t, f"{k} {d[1]} in {where}")
            sid = self.new_sig(path + d[1], t, v)
            self.declare(env, d[1], ('sig', sid, t, 'internal'), where)
            info['sig'][d[1].lower()] = sid
            if t[0] == 'enum' and d[1].lower().startswith('s_'):
                self.state_signals.append(sid)
        elif k == 'variable':
            if proc is None:
                self.issue('variable-outside-process', f"{d[1]} in {where}")
            t = self.mk_type(env, d[2], f"variable {d[1]} in {where}")
            v = self.default_value(t)
            if d[3] is not None:
                v = self.init_value(env, d[3], t, f"variable {d[1]} in {where}")
            vid = self.new_var(path + (proc or '') + '.' + d[1], t, v)
            is_temp = False
            if self.temporaries is not None:
                is_temp = (info['name'].lower(), (proc or '').lower(), d[1].lower()) in self.temporaries
            if is_temp and d[3] is None and self.poison:
                self.poison_vars_cur.append((vid, self.poison_value(t)))
            self.declare(env, d[1], ('var', vid, t, is_temp), where)
        else:
            raise Unsupported(k)

    def init_value(self, env, node, t, where):
        ty, fn, st = self.cx(node, env, t, None)
        self.check_assignable(t, ty, where)
        try:
            return self.conv_lit(fn(), ty, t)
        except Exception as e:        # noqa
            self.issue('bad-initial-value', f"{where}: {e}")
            return self.default_value(t)

    def conv_lit(self, v, ty, t):
        return v

    # ------------------------------------------------------------------ typing helpers
    def check_assignable(self, tt, st, where):
        """target type tt, source type st: VHDL requires the same type and, for arrays, equal length"""
        if tt[0] == 'any' or st[0] == 'any':
            return True
        if st[0] == 'lit':
            if tt[0] in VEC:
                if st[1] != tt[1]:
                    self.issue('width-mismatch', f"{tname(tt)} <- {tname(st)} in {where}")
                    return False
                return True
            self.issue('type-error', f"{tname(tt)} <- {tname(st)} in {where}")
            return False
        if tt[0] in VEC:
            if st[0] != tt[0]:
                self.issue('type-error', f"{tname(tt)} <- {tname(st)} in {where}")
                return False
            if st[1] != tt[1]:
                self.issue('width-mismatch', f"{tname(tt)} <- {tname(st)} in {where}")
                return False
            return True
        if tt[0] in ('enum', 'arr'):
            if st[:2] != tt[:2]:
                self.issue('type-error', f"{tname(tt)} <- {tname(st)} in {where}")
                return False
            return True
        if tt[0] != st[0]:
            self.issue('type-error', f"{tname(tt)} <- {tname(st)} in {where}")
            return False
        return True

    # ------------------------------------------------------------------ expressions
    # cx(node, env, hint, ctx) -> (type, fn, static) ; static is None or a 1-tuple (value,)
    def cx(self, e, env, hint, ctx):
        k = e[0]
        m = getattr(self, 'cx_' + k, None)
        if m is None:
            raise Unsupported(f"expression kind {k}")
        return m(e, env, hint, ctx)

    def cx_paren(self, e, env, hint, ctx):
        return self.cx(e[1], env, hint, ctx)

    def cx_num(self, e, env, hint, ctx):
        v = e[1]
        return INT, (lambda: v), (v,)

    def cx_real(self, e, env, hint, ctx):
        raise Unsupported("real literal")

    def cx_char(self, e, env, hint, ctx):
        c = e[1]
        if c in '01':
            v = int(c)
        elif c.upper() in 'UXZWLH-':
            v = Meta(0, 1)
        else:
            self.issue('type-error', f"character literal '{c}' is not a std_logic value")
            v = Meta(0, 1)
        return SL, (lambda: v), (v,)

    def cx_str(self, e, env, hint, ctx):
        s = e[1]
        n = len(s)
        val = 0
        m = 0
        for c in s:
            val <<= 1
            m <<= 1
            if c == '1':
                val |= 1
            elif c == '0':
                pass
            elif c.upper() in 'UXZWLH-':
                m |= 1
            else:
                if hint is not None and hint[0] == 'str':
                    return STR, (lambda: s), (s,)
                self.issue('type-error', f"string literal {s!r} is not a bit string")
                return ANY, (lambda: 0), None
        v = mk(val, m)
        if hint is not None and hint[0] in VEC:
            t = (hint[0], n, 'downto')
        elif hint is not None and hint[0] == 'str':
            return STR, (lambda: s), (s,)
        else:
            t = ('lit', n)
        return t, (lambda: v), (v,)

    def cx_others(self, e, env, hint, ctx):
        raise Unsupported("others outside aggregate")

    def cx_id(self, e, env, hint, ctx):
        n = e[1].lower()
        ent = env.lookup(n)
        if ent is None:
            if n == 'true':
                return BOOL, (lambda: True), (True,)
            if n == 'false':
                return BOOL, (lambda: False), (False,)
            self.issue('undeclared-identifier', e[1])
            return ANY, (lambda: 0), None
        kind = ent[0]
        if kind == 'sig':
            sid, t, mode = ent[1], ent[2], ent[3]
            if ctx is not None:
                ctx.reads.add(sid)
                if ctx.guard == 0:
                    ctx.unguarded_reads.add(sid)
            if mode == 'out':
                self.issue('read-out-port', f"{e[1]} in {ctx.where if ctx else '?'}")
            S = self.S
            if t[0] in ('bool', 'int', 'enum'):
                sim = self

                def rd():
                    v = S[sid]
                    if v.__class__ is Uninit:
                        sim.ev('uninit-scalar-read', sim.signame[sid])
                        return v.default
                    return v
                return t, rd, None
            return t, (lambda: S[sid]), None
        if kind == 'var':
            vid, t, is_temp = ent[1], ent[2], ent[3]
            V = self.V
            sim = self
            if ctx is not None and ctx.proc_vars is not None and vid not in ctx.proc_vars:
                self.issue('variable-outside-its-process', f"{e[1]} in {ctx.where}")
            if t[0] in ('bool', 'int', 'enum'):
                def rd():
                    v = V[vid]
                    if v.__class__ is Uninit:
                        if v.poison:
                            sim.ev('poison-read', sim.varname[vid])
                        else:
                            sim.ev('uninit-scalar-read', sim.varname[vid])
                        return v.default
                    return v
                return t, rd, None
            if is_temp:
                def rd():
                    v = V[vid]
                    if v.__class__ is Meta and v.poison:
                        sim.ev('poison-read', sim.varname[vid])
                    return v
                return t, rd, None
            return t, (lambda: V[vid]), None
        if kind == 'enumlits':
            cands = ent[1]
            if len(cands) > 1:
                if hint is not None and hint[0] == 'enum':
                    cands = [c for c in cands if c[0][1] == hint[1]]
                if len(cands) != 1:
                    raise Unsupported(f"overloaded enumeration literal {e[1]} without type context")
            t, pos = cands[0]
            return t, (lambda: pos), (pos,)
        if kind == 'label' or kind == 'type' or kind == 'func':
            self.issue('type-error', f"{e[1]} is a {kind}, used as a value")
            return ANY, (lambda: 0), None
        raise Unsupported(f"identifier kind {kind}")

    def cx_qual(self, e, env, hint, ctx):
        # T'(expr): no conversion, expr must have exactly type T
        if e[1][0] != 'id':
            raise Unsupported("qualified expression prefix")
        tn = e[1][1].lower()
        ent = env.lookup(tn)
        if ent is not None and ent[0] != 'type':
            self.issue('hides-predefined' if tn in PREDEF_TYPES else 'not-a-type',
                       f"type mark {e[1][1]} in qualified expression denotes an object")
            return ANY, (lambda: 0), None
        if ent is not None:
            T = ent[1]
            t, fn, st = self.cx(e[2], env, T, ctx)
            self.check_assignable(T, t, f"qualified expression {e[1][1]}'(..)")
            return T, fn, st
        if tn in VEC_NAME:
            kind = VEC_NAME[tn]
            t, fn, st = self.cx(e[2], env, (kind, None, 'downto'), ctx)
            if t[0] == 'lit':
                return (kind, t[1], 'downto'), fn, st
            if t[0] == 'any':
                return t, fn, st
            if t[0] != kind:
                self.issue('type-error', f"qualified expression {tn}'({tname(t)})")
                return ANY, fn, None
            return t, fn, st
        if tn in ('std_logic', 'std_ulogic'):
            t, fn, st = self.cx(e[2], env, SL, ctx)
            if t[0] not in ('sl', 'any'):
                self.issue('type-error', f"qualified expression {tn}'({tname(t)})")
            return SL, fn, st
        if tn == 'boolean':
            t, fn, st = self.cx(e[2], env, BOOL, ctx)
            if t[0] not in ('bool', 'any'):
                self.issue('type-error', f"qualified expression {tn}'({tname(t)})")
            return BOOL, fn, st
        if tn in ('integer', 'natural', 'positive'):
            t, fn, st = self.cx(e[2], env, INT, ctx)
            if t[0] not in ('int', 'any'):
                self.issue('type-error', f"qualified expression {tn}'({tname(t)})")
            return INT, fn, st
        self.issue('undeclared-type', e[1][1])
        return ANY, (lambda: 0), None

    def cx_agg(self, e, env, hint, ctx):
        items = e[1]
        if hint is None or hint[0] not in ('arr',) + VEC or (hint[0] in VEC and hint[1] is None):
            self.issue('type-error', "aggregate without a determinable type")
            return ANY, (lambda: 0), None
        if hint[0] == 'arr':
            n = hint[2]
            elt = hint[3]
        else:
            n = hint[1]
            elt = SL
        slots = [None] * n
        oth = None
        pos = 0
        for ch, v in items:
            t, fn, st = self.cx(v, env, elt, ctx)
            self.check_assignable(elt, t, "aggregate element")
            if ch is None:
                if pos >= n:
                    self.issue('index-out-of-range', "positional aggregate too long")
                else:
                    slots[pos] = fn
                pos += 1
            elif ch == ('others',):
                oth = fn
            else:
                idx = self.static_int(env, ch, "aggregate choice")
                if not (0 <= idx < n):
                    self.issue('index-out-of-range', f"aggregate choice {idx} for length {n}")
                elif slots[idx] is not None:
                    self.issue('duplicate-choice', f"aggregate choice {idx}")
                else:
                    slots[idx] = fn
        for i in range(n):
            if slots[i] is None:
                if oth is None:
                    self.issue('incomplete-aggregate', f"element {i} of {n} missing")
                    dv = self.default_value(elt)
                    slots[i] = (lambda dv=dv: dv)
                else:
                    slots[i] = oth
        fns = tuple(slots)
        if hint[0] == 'arr':
            return hint, (lambda: tuple(f() for f in fns)), None
        # vector aggregate: index i is bit i for downto, w-1-i for to
        down = hint[2] == 'downto'

        def vec():
            v = 0
            m = 0
            for i, f in enumerate(fns):
                b = f()
                bit = i if down else n - 1 - i
                if b.__class__ is Meta:
                    m |= 1 << bit
                elif b:
                    v |= 1 << bit
            return mk(v, m)
        return (hint[0], n, hint[2]), vec, None

    def cx_attr(self, e, env, hint, ctx):
        raise Unsupported(f"attribute '{e[2]}")

    def cx_sel(self, e, env, hint, ctx):
        raise Unsupported("selected name")

    def cx_slice(self, e, env, hint, ctx):
        t, fn, st = self.cx(e[1], env, None, ctx)
        a = self.static_int(env, e[2], "slice bound")
        b = self.static_int(env, e[4], "slice bound")
        if t[0] == 'any':
            return ANY, fn, None
        if t[0] not in VEC:
            self.issue('type-error', f"slice of {tname(t)}")
            return ANY, fn, None
        return self.slice_of(t, fn, a, e[3], b)

    def slice_geometry(self, t, a, d, b):
        """returns (lo_bit, w) in int-bit coordinates, or None after reporting"""
        W = t[1]
        if d != t[2]:
            self.issue('slice-direction', f"slice direction {d} on a {t[2]} vector")
            return None
        if d == 'downto':
            hi, lo = a, b
        else:
            lo, hi = a, b
            lo, hi = W - 1 - hi, W - 1 - lo
        w = hi - lo + 1
        if w <= 0:
            self.warn('null-slice', f"{a} {d} {b}")
            return (0, 0)
        if lo < 0 or hi >= W:
            self.issue('index-out-of-range', f"slice {a} {d} {b} of {tname(t)}")
            return None
        return lo, w

    def slice_of(self, t, fn, a, d, b):
        g = self.slice_geometry(t, a, d, b)
        if g is None:
            return ANY, fn, None
        lo, w = g
        mk_ = mask(w)

        def sl():
            v = fn()
            if v.__class__ is Meta:
                return mk((v.v >> lo) & mk_, (v.m >> lo) & mk_)
            return (v >> lo) & mk_
        return (t[0], w, t[2]), sl, None

    def cx_call(self, e, env, hint, ctx):
        pre = e[1]
        args = e[2]
        if pre[0] == 'id':
            n = pre[1].lower()
            ent = env.lookup(n)
            if ent is not None and ent[0] in ('sig', 'var'):
                r = self.index_of(e, env, ctx, quiet=(n in PREDEF_ALL))
                if r is None:
                    self.issue('hides-predefined', f"{pre[1]} is declared as an object but used as the predefined {n}")
                    return ANY, (lambda: 0), None
                return r
            if ent is not None and ent[0] == 'func':
                return self.call_fn(ent[1], args, env, hint, ctx)
            if ent is not None and ent[0] == 'type':
                raise Unsupported("conversion to user type")
            if ent is not None:
                self.issue('hides-predefined' if n in PREDEF_ALL else 'type-error',
                           f"{pre[1]} ({ent[0]}) used as a function or array")
                return ANY, (lambda: 0), None
            if n in PREDEF_FUNCS or n in VEC_NAME or n in ('std_logic', 'integer', 'boolean'):
                return self.call_fn(n, args, env, hint, ctx)
            self.issue('undeclared-identifier', pre[1])
            return ANY, (lambda: 0), None
        return self.index_of(e, env, ctx)

    def index_of(self, e, env, ctx, quiet=False):
        args = e[2]
        t, fn, st = self.cx(e[1], env, None, ctx) if not quiet else self._quiet(lambda: self.cx(e[1], env, None, ctx))
        if len(args) != 1:
            if quiet:
                return None
            self.issue('type-error', "multi-dimensional index")
            return ANY, fn, None
        if quiet:
            it, ifn, ist = self._quiet(lambda: self.cx(args[0], env, INT, ctx))
        else:
            it, ifn, ist = self.cx(args[0], env, INT, ctx)
        if t[0] == 'any':
            return ANY, fn, None
        if it[0] not in ('int', 'any'):
            if quiet:
                return None
            self.issue('type-error', f"index of type {tname(it)}")
            return ANY, fn, None
        sim = self
        if t[0] == 'arr':
            n = t[2]
            if ist is not None and not (0 <= ist[0] < n):
                self.issue('index-out-of-range', f"index {ist[0]} of {tname(t)}")
            elt = t[3]
            dv = self.default_value(elt)

            def ix():
                a = fn()
                i = ifn()
                if a.__class__ is Uninit:
                    return dv
                if 0 <= i < n:
                    return a[i]
                sim.ev('index-out-of-range', f"{i} of {n}")
                return dv
            return elt, ix, None
        if t[0] in VEC:
            W = t[1]
            down = t[2] == 'downto'
            if ist is not None and not (0 <= ist[0] < W):
                self.issue('index-out-of-range', f"index {ist[0]} of {tname(t)}")

            def bx():
                v = fn()
                i = ifn()
                if not 0 <= i < W:
                    sim.ev('index-out-of-range', f"{i} of {W}")
                    return Meta(0, 1)
                if not down:
                    i = W - 1 - i
                if v.__class__ is Meta:
                    if (v.m >> i) & 1:
                        return Meta(0, 1, v.poison)
                    return (v.v >> i) & 1
                return (v >> i) & 1
            return SL, bx, None
        if quiet:
            return None
        self.issue('type-error', f"index of {tname(t)}")
        return ANY, fn, None

    def _quiet(self, f):
        saved = self.issues
        self.issues = []
        try:
            return f()
        finally:
            self.issues = saved

    # ---- function calls and conversions
    def call_fn(self, n, args, env, hint, ctx):
        sim = self
        if n in VEC_NAME:          # type conversion between closely related array types
            if len(args) != 1:
                self.issue('type-error', f"conversion {n} with {len(args)} arguments")
                return ANY, (lambda: 0), None
            t, fn, st = self.cx(args[0], env, None, ctx)
            if t[0] == 'any':
                return ANY, fn, None
            if t[0] == 'lit':
                self.issue('type-error', f"type conversion {n}(string literal) is ambiguous; needs a qualified expression")
                return (VEC_NAME[n], t[1], 'downto'), fn, st
            if t[0] not in VEC:
                self.issue('type-error', f"conversion {n}({tname(t)})")
                return ANY, fn, None
            return (VEC_NAME[n], t[1], t[2]), fn, st
        if n == 'cohdl_bool_to_std_logic':
            t, fn, st = self.one_arg(n, args, env, BOOL, ctx)
            if t[0] not in ('bool', 'any'):
                self.issue('type-error', f"{n}({tname(t)})")
            return SL, (lambda: 1 if fn() else 0), None
        if n in ('rising_edge', 'falling_edge'):
            if (len(args) == 1 and args[0][0] == 'call' and args[0][1][0] == 'id' and len(args[0][2]) == 1
                    and args[0][2][0].__class__ is tuple and args[0][2][0][0] != 'range'):
                # an element of a vector signal: sig(i) with a static index
                vent = env.lookup(args[0][1][1].lower())
                if vent is not None and vent[0] == 'sig' and vent[2][0] in VEC:
                    try:
                        ix = self.static_int(env, args[0][2][0], n)
                    except Exception:       # noqa
                        ix = None
                    if ix is not None and 0 <= ix < vent[2][1]:
                        sid = vent[1]
                        bit = 1 << (ix if vent[2][2] == 'downto' else vent[2][1] - 1 - ix)
                        if vent[3] == 'out':
                            self.issue('read-out-port', f"{args[0][1][1]}")
                        if ctx is not None:
                            ctx.reads.add(sid)
                            ctx.unguarded_reads.add(sid)
                            ctx.edge_signals.add(sid)
                        newb = bit if n == 'rising_edge' else 0
                        S = self.S

                        def edge_bit():
                            if sid not in sim.event:
                                return False
                            cur, prv = S[sid], sim.prev.get(sid)
                            if cur.__class__ is not int or prv.__class__ is not int:
                                if cur.__class__ is Meta and prv.__class__ in (Meta, int):
                                    pm, pv = (prv.m, prv.v) if prv.__class__ is Meta else (0, prv)
                                    return not (cur.m & bit) and not (pm & bit) and (cur.v & bit) == newb and (pv & bit) == bit - newb
                                if cur.__class__ is int and prv.__class__ is Meta:
                                    return not (prv.m & bit) and (cur & bit) == newb and (prv.v & bit) == bit - newb
                                return False
                            return (cur & bit) == newb and (prv & bit) == bit - newb
                        return BOOL, edge_bit, None
            if len(args) != 1 or args[0][0] != 'id':
                self.issue('type-error', f"{n} needs a signal name")
                return BOOL, (lambda: False), None
            ent = env.lookup(args[0][1].lower())
            if ent is None or ent[0] != 'sig' or ent[2][0] != 'sl':
                self.issue('type-error', f"{n}({args[0][1]}): argument is not a std_logic signal")
                return BOOL, (lambda: False), None
            sid = ent[1]
            if ent[3] == 'out':
                self.issue('read-out-port', f"{args[0][1]}")
            if ctx is not None:
                ctx.reads.add(sid)
                ctx.unguarded_reads.add(sid)
                ctx.edge_signals.add(sid)
            new = 1 if n == 'rising_edge' else 0
            S = self.S

            def edge():
                return sid in sim.event and S[sid] == new and sim.prev.get(sid) == 1 - new
            return BOOL, edge, None
        if n == 'resize':
            if len(args) != 2:
                self.issue('type-error', "resize needs 2 arguments")
                return ANY, (lambda: 0), None
            t, fn, st = self.cx(args[0], env, None, ctx)
            nn = self.static_or_dyn_int(args[1], env, ctx)
            if t[0] == 'any':
                return ANY, fn, None
            if t[0] not in ('u', 's'):
                self.issue('type-error', f"resize({tname(t)}, ..)")
                return ANY, fn, None
            if nn[0] is None:
                raise Unsupported("resize with non-static length")
            N = nn[0]
            if N < 0:
                self.issue('range-error', f"resize to {N}")
                N = 0
            W = t[1]
            mN = mask(N)
            if t[0] == 'u' or W == 0:
                def rz():
                    v = fn()
                    if v.__class__ is Meta:
                        return mk(v.v & mN, v.m & mN)
                    return v & mN
            elif N >= W:
                ext = mN & ~mask(W)
                sb = 1 << (W - 1)

                def rz():
                    v = fn()
                    if v.__class__ is Meta:
                        if v.m & sb:
                            return mk(v.v, v.m | ext)
                        return mk(v.v | (ext if v.v & sb else 0), v.m)
                    return v | ext if v & sb else v
            else:
                low = mask(N - 1) if N > 0 else 0
                sh = W - N

                def rz():
                    v = fn()
                    if N == 0:
                        return 0
                    if v.__class__ is Meta:
                        return mk((v.v & low) | ((v.v >> sh) & (1 << (N - 1))), (v.m & low) | ((v.m >> sh) & (1 << (N - 1))))
                    return (v & low) | ((v >> sh) & (1 << (N - 1)))
            return (t[0], N, t[2]), rz, None
        if n in ('shift_left', 'shift_right', 'rotate_left', 'rotate_right'):
            if len(args) != 2:
                self.issue('type-error', f"{n} needs 2 arguments")
                return ANY, (lambda: 0), None
            t, fn, st = self.cx(args[0], env, None, ctx)
            ct, cfn, cst = self.cx(args[1], env, INT, ctx)
            if t[0] == 'any':
                return ANY, fn, None
            if t[0] not in ('u', 's') or ct[0] not in ('int', 'any'):
                self.issue('type-error', f"{n}({tname(t)}, {tname(ct)})")
                return ANY, fn, None
            W = t[1]
            mW = mask(W)
            signed = t[0] == 's'
            if cst is not None and cst[0] < 0:
                self.issue('range-error', f"{n} by {cst[0]}")

            def sh():
                v = fn()
                c = cfn()
                if c < 0:
                    sim.ev('natural-range-error', f"{n} by {c}")
                    c = 0
                meta = v.__class__ is Meta
                vv, mm = (v.v, v.m) if meta else (v, 0)
                if n == 'shift_left':
                    if c >= W:
                        return 0
                    vv = (vv << c) & mW
                    mm = (mm << c) & mW
                elif n == 'shift_right':
                    if signed and W:
                        sb = W - 1
                        sv = (vv >> sb) & 1
                        sm = (mm >> sb) & 1
                        c2 = min(c, W)
                        fill = mW & ~(mW >> c2)
                        vv = (vv >> c2) | (fill if sv else 0)
                        mm = (mm >> c2) | (fill if sm else 0)
                    else:
                        vv >>= c
                        mm >>= c
                else:
                    if W:
                        c %= W
                        if n == 'rotate_right':
                            c = (W - c) % W
                        vv = ((vv << c) | (vv >> (W - c))) & mW
                        mm = ((mm << c) | (mm >> (W - c))) & mW
                return mk(vv, mm)
            return t, sh, None
        if n == 'to_integer':
            t, fn, st = self.one_arg(n, args, env, None, ctx)
            if t[0] == 'any':
                return INT, (lambda: 0), None
            if t[0] not in ('u', 's'):
                self.issue('type-error', f"to_integer({tname(t)})")
                return INT, (lambda: 0), None
            W = t[1]
            signed = t[0] == 's'

            def ti():
                v = fn()
                if v.__class__ is Meta:
                    sim.ev('to_integer-of-metavalue')
                    return 0
                r = sval(v, W) if signed and W else v
                if r > INT_MAX:
                    sim.ev('integer-overflow', f"to_integer -> {r}")
                return r
            return INT, ti, None
        if n in ('to_unsigned', 'to_signed'):
            if len(args) != 2:
                self.issue('type-error', f"{n} needs 2 arguments")
                return ANY, (lambda: 0), None
            t, fn, st = self.cx(args[0], env, INT, ctx)
            nn = self.static_or_dyn_int(args[1], env, ctx)
            if t[0] not in ('int', 'any'):
                self.issue('type-error', f"{n}({tname(t)}, ..)")
            if nn[0] is None:
                raise Unsupported(f"{n} with non-static length")
            N = nn[0]
            mN = mask(N)
            if n == 'to_unsigned':
                if st is not None and st[0] < 0:
                    self.issue('range-error', f"to_unsigned({st[0]}, {N})")
                if st is not None and st[0] > mN:
                    self.warn('vector-truncated', f"to_unsigned({st[0]}, {N})")

                def tu():
                    i = fn()
                    if i < 0:
                        sim.ev('natural-range-error', f"to_unsigned({i})")
                    elif i > mN:
                        sim.ev('vector-truncated', f"to_unsigned({i}, {N})")
                    return i & mN
                return ('u', N, 'downto'), tu, None
            if st is not None and N and not (-(1 << (N - 1)) <= st[0] < (1 << (N - 1))):
                self.warn('vector-truncated', f"to_signed({st[0]}, {N})")

            def ts():
                i = fn()
                if N and not (-(1 << (N - 1)) <= i < (1 << (N - 1))):
                    sim.ev('vector-truncated', f"to_signed({i}, {N})")
                return i & mN
            return ('s', N, 'downto'), ts, None
        if n in ('std_logic', 'integer', 'boolean'):
            t, fn, st = self.one_arg(n, args, env, None, ctx)
            want = {'std_logic': 'sl', 'integer': 'int', 'boolean': 'bool'}[n]
            if t[0] not in (want, 'any'):
                self.issue('type-error', f"conversion {n}({tname(t)})")
            return (want,), fn, st
        raise Unsupported(f"function {n}")

    def one_arg(self, n, args, env, hint, ctx):
        if len(args) != 1:
            self.issue('type-error', f"{n} needs 1 argument")
            return ANY, (lambda: 0), None
        return self.cx(args[0], env, hint, ctx)

    def static_or_dyn_int(self, node, env, ctx):
        t, fn, st = self.cx(node, env, INT, ctx)
        if t[0] not in ('int', 'any'):
            self.issue('type-error', f"integer expected, got {tname(t)}")
            return (0,)
        if st is None:
            return (None,)
        return (st[0],)

    # ---- unary
    def cx_un(self, e, env, hint, ctx):
        op = e[1]
        t, fn, st = self.cx(e[2], env, hint, ctx)
        sim = self
        if t[0] == 'any':
            return ANY, fn, None
        if op == 'not':
            if t[0] == 'bool':
                return BOOL, (lambda: not fn()), ((not st[0],) if st else None)
            if t[0] == 'sl' or t[0] in VEC:
                mW = mask(width(t))

                def inv():
                    v = fn()
                    if v.__class__ is Meta:
                        return Meta(~v.v & mW, v.m, v.poison)
                    return ~v & mW
                return t, inv, None
            self.issue('type-error', f"not {tname(t)}")
            return ANY, fn, None
        if op in ('-', '+', 'abs'):
            if t[0] == 'int':
                if op == '-':
                    return INT, (lambda: -fn()), ((-st[0],) if st else None)
                if op == 'abs':
                    return INT, (lambda: abs(fn())), ((abs(st[0]),) if st else None)
                return t, fn, st
            if t[0] == 's':
                W = t[1]
                mW = mask(W)
                if op == '+':
                    return t, fn, None

                def neg():
                    v = fn()
                    if v.__class__ is Meta:
                        return Meta(0, mW)
                    if op == 'abs':
                        return abs(sval(v, W)) & mW if W else 0
                    return (-v) & mW
                return t, neg, None
            self.issue('type-error', f"{op} {tname(t)}")
            return ANY, fn, None
        raise Unsupported(f"unary {op}")

    # ---- binary
    def cx_bin(self, e, env, hint, ctx):
        op = e[1]
        l, r = e[2], e[3]
        lit_l = self.is_literalish(l)
        lit_r = self.is_literalish(r)
        if op == '&':
            h = hint if hint is not None and hint[0] in VEC else None
            hh = (h[0], None, 'downto') if h else None
            ta, fa, sa = self.cx(l, env, hh, ctx)
            tb, fb, sb_ = self.cx(r, env, hh, ctx)
        elif lit_l and not lit_r:
            tb, fb, sb_ = self.cx(r, env, None, ctx)
            ta, fa, sa = self.cx(l, env, self.operand_hint(tb), ctx)
        else:
            ta, fa, sa = self.cx(l, env, None, ctx)
            tb, fb, sb_ = self.cx(r, env, self.operand_hint(ta), ctx)
        if ta[0] == 'any' or tb[0] == 'any':
            rt = BOOL if op in ('=', '/=', '<', '<=', '>', '>=') else ANY
            return rt, (lambda: False), None
        # a free string literal takes the vector type of the other operand
        if ta[0] == 'lit' and tb[0] in VEC:
            ta = (tb[0], ta[1], 'downto')
        if tb[0] == 'lit' and ta[0] in VEC:
            tb = (ta[0], tb[1], 'downto')
        if op in ('and', 'or', 'xor', 'nand', 'nor', 'xnor'):
            return self.logical(op, ta, fa, tb, fb)
        if op == '&':
            return self.concat(ta, fa, tb, fb, hint)
        if op in ('=', '/=', '<', '<=', '>', '>='):
            return self.relational(op, ta, fa, sa, tb, fb, sb_)
        if op in ('+', '-', '*', '/', 'mod', 'rem'):
            return self.arith(op, ta, fa, sa, tb, fb, sb_)
        raise Unsupported(f"operator {op}")

    @staticmethod
    def is_literalish(n):
        while n[0] == 'paren':
            n = n[1]
        return n[0] in ('str', 'agg')

    @staticmethod
    def operand_hint(t):
        if t[0] in VEC:
            return (t[0], None, 'downto')
        return t

    def logical(self, op, ta, fa, tb, fb):
        neg = op in ('nand', 'nor', 'xnor')
        base = {'nand': 'and', 'nor': 'or', 'xnor': 'xor'}.get(op, op)
        if ta[0] == 'bool' and tb[0] == 'bool':
            if base == 'and':
                f = lambda: bool(fa() and fb())      # noqa
            elif base == 'or':
                f = lambda: bool(fa() or fb())       # noqa
            else:
                f = lambda: fa() != fb()             # noqa
            if neg:
                return BOOL, (lambda: not f()), None
            return BOOL, f, None
        ok = (ta[0] == 'sl' and tb[0] == 'sl') or (ta[0] in VEC and ta[0] == tb[0])
        if not ok:
            self.issue('type-error', f"{tname(ta)} {op} {tname(tb)}")
            return ANY, fa, None
        if ta[0] in VEC and ta[1] != tb[1]:
            self.issue('width-mismatch', f"{tname(ta)} {op} {tname(tb)}")
            return ANY, fa, None
        mW = mask(width(ta))

        def lg():
            a = fa()
            b = fb()
            if a.__class__ is int and b.__class__ is int:
                if base == 'and':
                    r = a & b
                elif base == 'or':
                    r = a | b
                else:
                    r = a ^ b
                return (~r & mW) if neg else r
            av, am = (a.v, a.m) if a.__class__ is Meta else (a, 0)
            bv, bm = (b.v, b.m) if b.__class__ is Meta else (b, 0)
            if base == 'and':
                v = av & bv
                # unknown unless one side is a known 0
                m = (am | bm) & ~((~av & ~am) | (~bv & ~bm)) & mW
            elif base == 'or':
                v = av | bv
                m = (am | bm) & ~((av & ~am) | (bv & ~bm)) & mW
            else:
                v = av ^ bv
                m = am | bm
            if neg:
                v = ~v & mW
            return mk(v & ~m, m)
        return ta, lg, None

    def concat(self, ta, fa, tb, fb, hint):
        def elem_kind(t):
            if t[0] == 'sl':
                return None
            if t[0] in VEC or t[0] == 'lit':
                return t[0]
            return 'bad'
        ka, kb = elem_kind(ta), elem_kind(tb)
        if ka == 'bad' or kb == 'bad':
            self.issue('type-error', f"{tname(ta)} & {tname(tb)}")
            return ANY, fa, None
        kinds = {k for k in (ka, kb) if k not in (None, 'lit')}
        if len(kinds) > 1:
            self.issue('type-error', f"{tname(ta)} & {tname(tb)} (operands of & must have the same array type)")
            return ANY, fa, None
        if kinds:
            kind = kinds.pop()
        elif hint is not None and hint[0] in VEC:
            kind = hint[0]
        elif ka == 'lit' or kb == 'lit':
            kind = 'lit'
        else:
            kind = 'slv'       # std_logic & std_logic without context: assume std_logic_vector
        wa, wb = width(ta), width(tb)
        mb = mask(wb)

        def cc():
            a = fa()
            b = fb()
            if a.__class__ is int and b.__class__ is int:
                return (a << wb) | b
            av, am = (a.v, a.m) if a.__class__ is Meta else (a, 0)
            bv, bm = (b.v, b.m) if b.__class__ is Meta else (b, 0)
            return mk((av << wb) | bv, (am << wb) | bm)
        if kind == 'lit':
            return ('lit', wa + wb), cc, None
        return (kind, wa + wb, 'downto'), cc, None

    def relational(self, op, ta, fa, sa, tb, fb, sb_):
        sim = self
        eq = op in ('=', '/=')
        ka, kb = ta[0], tb[0]
        mode = None
        if ka == kb and ka in ('sl', 'bool', 'int'):
            mode = 'scalar'
        elif ka == 'enum' and kb == 'enum' and ta[1] == tb[1]:
            mode = 'scalar'
        elif ka == 'lit' and kb == 'lit':
            self.issue('type-error', "comparison of two string literals is ambiguous")
            return BOOL, (lambda: False), None
        elif ka in ('u', 's') and kb == ka:
            mode = 'num'
        elif ka in ('u', 's') and kb == 'int':
            mode = 'num'
            if ka == 'u' and sb_ is not None and sb_[0] < 0:
                self.issue('range-error', f"unsigned compared with negative integer {sb_[0]}")
        elif kb in ('u', 's') and ka == 'int':
            mode = 'num'
            if kb == 'u' and sa is not None and sa[0] < 0:
                self.issue('range-error', f"unsigned compared with negative integer {sa[0]}")
        elif ka == 'slv' and kb == 'slv':
            if not eq:
                self.issue('type-error', f"ordering operator {op} on std_logic_vector")
                return BOOL, (lambda: False), None
            if ta[1] != tb[1]:
                self.issue('width-mismatch', f"{tname(ta)} {op} {tname(tb)} (always false)")
            mode = 'slv'
        elif ka == 'arr' and kb == 'arr' and ta[1] == tb[1] and eq:
            mode = 'scalar'
        else:
            self.issue('type-error', f"{tname(ta)} {op} {tname(tb)}")
            return BOOL, (lambda: False), None
        if ka == 'sl' and not eq:
            # predefined ordering of the enumeration std_ulogic: legal but never emitted on purpose
            self.warn('ordering-on-std_logic', op)
        wa = ta[1] if ka in VEC else None
        wb = tb[1] if kb in VEC else None
        sga = ka == 's'
        sgb = kb == 's'
        import operator
        pyop = {'=': operator.eq, '/=': operator.ne, '<': operator.lt, '<=': operator.le,
                '>': operator.gt, '>=': operator.ge}[op]

        if mode == 'scalar':
            def cmp_():
                a = fa()
                b = fb()
                if a.__class__ is Meta or b.__class__ is Meta:
                    # std_logic '=' compares enumeration values: 'U' = 'U' is true; we cannot tell U from X,
                    # so a comparison involving a metavalue is reported and taken as "not equal"
                    sim.ev('metavalue-compare')
                    return op == '/='
                return pyop(a, b)
            return BOOL, cmp_, None
        if mode == 'slv':
            same = ta[1] == tb[1]

            def cmp_():
                a = fa()
                b = fb()
                if a.__class__ is Meta or b.__class__ is Meta:
                    sim.ev('metavalue-compare')
                    return op == '/='
                if not same:
                    return op == '/='
                return pyop(a, b)
            return BOOL, cmp_, None

        def cmp_():
            a = fa()
            b = fb()
            if a.__class__ is Meta or b.__class__ is Meta:
                sim.ev('metavalue-compare')
                return op == '/='          # numeric_std: false, except /= which returns true
            if sga and wa:
                a = sval(a, wa)
            if sgb and wb:
                b = sval(b, wb)
            return pyop(a, b)
        return BOOL, cmp_, None

    def arith(self, op, ta, fa, sa, tb, fb, sb_):
        sim = self
        ka, kb = ta[0], tb[0]
        if ka == 'int' and kb == 'int':
            def ia():
                a = fa()
                b = fb()
                if op == '+':
                    r = a + b
                elif op == '-':
                    r = a - b
                elif op == '*':
                    r = a * b
                else:
                    if b == 0:
                        sim.ev('division-by-zero')
                        return 0
                    q = abs(a) // abs(b)
                    if (a < 0) != (b < 0):
                        q = -q
                    if op == '/':
                        r = q
                    elif op == 'rem':
                        r = a - q * b
                    else:
                        r = a % b
                if not INT_MIN <= r <= INT_MAX:
                    sim.ev('integer-overflow', f"{a} {op} {b}")
                return r
            st = None
            if sa is not None and sb_ is not None:
                try:
                    saved = Counter(self.events)
                    v = ia()
                    self.events = saved
                    st = (v,)
                except Exception:      # noqa
                    st = None
            return INT, ia, st
        vec = None
        if ka in ('u', 's') and kb == ka:
            vec = ka
        elif ka in ('u', 's') and kb == 'int':
            vec = ka
        elif kb in ('u', 's') and ka == 'int':
            vec = kb
        if vec is None:
            self.issue('type-error', f"{tname(ta)} {op} {tname(tb)}")
            return ANY, fa, None
        wa = ta[1] if ka != 'int' else None
        wb = tb[1] if kb != 'int' else None
        if op in ('+', '-'):
            W = max(x for x in (wa, wb) if x is not None)
        elif op == '*':
            W = (wa if wa is not None else wb) + (wb if wb is not None else wa)
        elif op == '/':
            W = wa if wa is not None else wb
        else:   # mod rem
            W = wb if wb is not None else wa
        mW = mask(W)
        signed = vec == 's'
        # numeric_std converts an integer operand with to_unsigned/to_signed(i, length of the vector operand)
        cw = wa if wa is not None else wb
        for st_, kk in ((sa, ka), (sb_, kb)):
            if kk == 'int' and st_ is not None:
                if not signed and st_[0] < 0:
                    self.issue('range-error', f"negative integer {st_[0]} with unsigned operand in {op}")
                elif not signed and st_[0] > mask(cw):
                    self.warn('vector-truncated', f"integer {st_[0]} with {cw}-bit operand in {op}")
                elif signed and cw and not (-(1 << (cw - 1)) <= st_[0] < (1 << (cw - 1))):
                    self.warn('vector-truncated', f"integer {st_[0]} with {cw}-bit operand in {op}")

        def conv_int(i):
            if signed:
                if cw and not (-(1 << (cw - 1)) <= i < (1 << (cw - 1))):
                    sim.ev('vector-truncated', f"integer {i} to signed({cw})")
                i &= mask(cw)
                return sval(i, cw) if cw else 0
            if i < 0:
                sim.ev('natural-range-error', f"integer {i} with unsigned operand")
                return i & mask(cw)
            if i > mask(cw):
                sim.ev('vector-truncated', f"integer {i} to unsigned({cw})")
            return i & mask(cw)

        def ar():
            a = fa()
            b = fb()
            if a.__class__ is Meta or b.__class__ is Meta:
                return mk(0, mW)
            if ka == 'int':
                a = conv_int(a)
            elif signed and wa:
                a = sval(a, wa)
            if kb == 'int':
                b = conv_int(b)
            elif signed and wb:
                b = sval(b, wb)
            if op == '+':
                r = a + b
            elif op == '-':
                r = a - b
            elif op == '*':
                r = a * b
            else:
                if b == 0:
                    sim.ev('division-by-zero')
                    return mk(0, mW)
                q = abs(a) // abs(b)
                if (a < 0) != (b < 0):
                    q = -q
                if op == '/':
                    r = q
                elif op == 'rem':
                    r = a - q * b
                else:
                    r = a % b
            return r & mW
        return (vec, W, 'downto'), ar, None

    # ------------------------------------------------------------------ statements
    class Ctx:
        def __init__(self, where, proc_vars=None):
            self.where = where
            self.reads = set()
            self.unguarded_reads = set()
            self.edge_signals = set()
            self.guard = 0
            self.writes = {}       # sid -> bit mask (None = whole)
            self.proc_vars = proc_vars

    def target(self, node, env, ctx, is_signal):
        """returns (type, root_kind, root_id, steps, static_mask) ; steps: list of ('idx', fn, n, is_vec, down) | ('slice', lo, w)"""
        steps = []
        n = node
        chain = []
        while n[0] in ('call', 'slice', 'paren'):
            if n[0] == 'paren':
                self.issue('type-error', "parenthesised assignment target")
                n = n[1]
                continue
            chain.append(n)
            n = n[1]
        if n[0] != 'id':
            raise Unsupported(f"assignment target {n[0]}")
        ent = env.lookup(n[1].lower())
        if ent is None:
            self.issue('undeclared-identifier', n[1])
            return None
        if ent[0] == 'sig':
            if not is_signal:
                self.issue('type-error', f"variable assignment to signal {n[1]} in {ctx.where}")
                return None
            if ent[3] == 'in':
                self.issue('write-in-port', f"{n[1]} in {ctx.where}")
            rk, rid, t = 'sig', ent[1], ent[2]
        elif ent[0] == 'var':
            if is_signal:
                self.issue('type-error', f"signal assignment to variable {n[1]} in {ctx.where}")
                return None
            if ctx.proc_vars is not None and ent[1] not in ctx.proc_vars:
                self.issue('variable-outside-its-process', f"{n[1]} in {ctx.where}")
            rk, rid, t = 'var', ent[1], ent[2]
        else:
            self.issue('type-error', f"assignment to {ent[0]} {n[1]} in {ctx.where}")
            return None
        root_t = t
        smask = None        # None = whole object; else bit mask (only for vector roots with static geometry)
        static_geom = True
        off = 0
        for c in reversed(chain):
            if t[0] == 'any':
                return None
            if c[0] == 'slice':
                if t[0] not in VEC:
                    self.issue('type-error', f"slice of {tname(t)} as assignment target")
                    return None
                a = self.static_int(env, c[2], "slice bound")
                b = self.static_int(env, c[4], "slice bound")
                g = self.slice_geometry(t, a, c[3], b)
                if g is None:
                    return None
                lo, w = g
                steps.append(('slice', lo, w))
                if root_t[0] in VEC and static_geom:
                    off += lo
                    smask = mask(w) << off
                t = (t[0], w, t[2])
            else:
                if len(c[2]) != 1:
                    self.issue('type-error', "multi-dimensional index in target")
                    return None
                it, ifn, ist = self.cx(c[2][0], env, INT, ctx)
                if it[0] not in ('int', 'any'):
                    self.issue('type-error', f"index of type {tname(it)} in target")
                    return None
                if t[0] == 'arr':
                    if ist is not None and not (0 <= ist[0] < t[2]):
                        self.issue('index-out-of-range', f"index {ist[0]} of {tname(t)}")
                    steps.append(('idx', ifn, t[2], False, True))
                    static_geom = False
                    t = t[3]
                elif t[0] in VEC:
                    W = t[1]
                    if ist is not None and not (0 <= ist[0] < W):
                        self.issue('index-out-of-range', f"index {ist[0]} of {tname(t)}")
                    steps.append(('idx', ifn, W, True, t[2] == 'downto'))
                    if root_t[0] in VEC and static_geom and ist is not None:
                        bit = ist[0] if t[2] == 'downto' else W - 1 - ist[0]
                        off += bit
                        smask = 1 << off
                    else:
                        static_geom = False
                        smask = None if root_t[0] not in VEC else smask
                        if root_t[0] in VEC:
                            # run-time bit index: the driver owns the whole enclosing range
                            pass
                    t = SL
                else:
                    self.issue('type-error', f"index of {tname(t)} as assignment target")
                    return None
        if rk == 'sig':
            full = mask(width(root_t)) if root_t[0] in VEC or root_t[0] == 'sl' else -1
            mm = full if (smask is None or not static_geom) else smask
            ctx.writes[rid] = ctx.writes.get(rid, 0) | mm
        return t, rk, rid, steps

    def make_update(self, steps):
        """returns upd(cur, val) -> new root value"""
        sim = self
        if not steps:
            return None

        def upd(cur, val, i=0):
            st = steps[i]
            last = i == len(steps) - 1
            if st[0] == 'slice':
                lo, w = st[1], st[2]
                if last:
                    piece = val
                else:
                    sub = extract(cur, lo, w)
                    piece = upd(sub, val, i + 1)
                return insert(cur, piece, lo, w)
            _, ifn, n, is_vec, down = st
            ix = ifn()
            if not 0 <= ix < n:
                sim.ev('index-out-of-range', f"target index {ix} of {n}")
                return cur
            if is_vec:
                bit = ix if down else n - 1 - ix
                if last:
                    piece = val
                else:
                    raise Unsupported("index below bit")
                return insert(cur, piece, bit, 1)
            if cur.__class__ is Uninit:
                raise Unsupported("uninit array")
            if last:
                piece = val
            else:
                piece = upd(cur[ix], val, i + 1)
            return cur[:ix] + (piece,) + cur[ix + 1:]

        def extract(cur, lo, w):
            mw = mask(w)
            if cur.__class__ is Meta:
                return mk((cur.v >> lo) & mw, (cur.m >> lo) & mw)
            return (cur >> lo) & mw

        def insert(cur, piece, lo, w):
            mw = mask(w) << lo
            cv, cm = (cur.v, cur.m) if cur.__class__ is Meta else (cur, 0)
            pv, pm = (piece.v, piece.m) if piece.__class__ is Meta else (piece, 0)
            return mk((cv & ~mw) | (pv << lo), (cm & ~mw) | (pm << lo))
        return upd

    def c_assign(self, tgt, expr, env, ctx, is_signal, ln):
        r = self.target(tgt, env, ctx, is_signal)
        if r is None:
            # still type the right-hand side so that reads are recorded
            self.cx(expr, env, None, ctx)
            return lambda: None
        tt, rk, rid, steps = r
        t, fn, st = self.cx(expr, env, tt, ctx)
        self.check_assignable(tt, t, f"{ctx.where} line {ln}")
        upd = self.make_update(steps)
        if rk == 'sig':
            sched = self.sched
            S = self.S
            if upd is None:
                def do():
                    sched[rid] = fn()
            else:
                def do():
                    v = fn()
                    cur = sched[rid] if rid in sched else S[rid]
                    sched[rid] = upd(cur, v)
            return do
        V = self.V
        if upd is None:
            def do():
                V[rid] = fn()
        else:
            def do():
                V[rid] = upd(V[rid], fn())
        return do

    def c_seq(self, stmts, env, ctx):
        fs = tuple(self.c_stmt(s, env, ctx) for s in stmts)
        if len(fs) == 1:
            return fs[0]

        def seq():
            for f in fs:
                f()
        return seq

    def cond(self, node, env, ctx):
        t, fn, st = self.cx(node, env, BOOL, ctx)
        if t[0] not in ('bool', 'any'):
            self.issue('type-error', f"condition of type {tname(t)} in {ctx.where}")
        return fn

    @staticmethod
    def has_edge(node):
        if isinstance(node, tuple):
            if node and node[0] == 'call' and node[1][0] == 'id' and node[1][1].lower() in ('rising_edge', 'falling_edge'):
                return True
            return any(Sim.has_edge(x) for x in node)
        if isinstance(node, list):
            return any(Sim.has_edge(x) for x in node)
        return False

    def c_stmt(self, s, env, ctx):
        k = s[0]
        sim = self
        if k == 'sassign':
            return self.c_assign(s[1], s[2], env, ctx, True, s[3])
        if k == 'vassign':
            return self.c_assign(s[1], s[2], env, ctx, False, s[3])
        if k == 'null':
            return lambda: None
        if k == 'if':
            arms = []
            for c, b in s[1]:
                cf = self.cond(c, env, ctx)
                edge = self.has_edge(c)
                if edge:
                    ctx.guard += 1
                bf = self.c_seq(b, env, ctx)
                if edge:
                    ctx.guard -= 1
                arms.append((cf, bf))
            ef = self.c_seq(s[2], env, ctx) if s[2] is not None else None
            if len(arms) == 1:
                cf, bf = arms[0]
                if ef is None:
                    def if1():
                        if cf():
                            bf()
                    return if1

                def if2():
                    if cf():
                        bf()
                    else:
                        ef()
                return if2
            arms = tuple(arms)

            def ifn():
                for cf, bf in arms:
                    if cf():
                        bf()
                        return
                if ef is not None:
                    ef()
            return ifn
        if k == 'case':
            st, sf, sst = self.cx(s[1], env, None, ctx)
            table = {}
            others = None
            seen_others = False
            for chs, body in s[2]:
                bf = self.c_seq(body, env, ctx)
                for ch in chs:
                    if ch == ('others',):
                        if seen_others:
                            self.issue('duplicate-choice', f"others twice in {ctx.where}")
                        seen_others = True
                        others = bf
                        continue
                    if seen_others:
                        self.issue('others-not-last', ctx.where)
                    ct, cf, cst = self.cx(ch, env, self.operand_hint(st) if st[0] != 'any' else None, ctx)
                    if st[0] == 'any' or ct[0] == 'any':
                        continue
                    if ct[0] == 'lit' and st[0] in VEC:
                        ct = (st[0], ct[1], 'downto')
                    self.check_assignable(st, ct, f"case choice in {ctx.where} line {s[3]}")
                    if cst is None:
                        self.issue('non-static-choice', f"{ctx.where} line {s[3]}")
                        continue
                    key = cst[0]
                    if key in table:
                        self.issue('duplicate-choice', f"{key!r} in {ctx.where} line {s[3]}")
                    table[key] = bf
            if not seen_others:
                self.issue('case-without-others', f"{ctx.where} line {s[3]}")
            if st[0] == 'lit':
                self.issue('type-error', f"case selector is a string literal in {ctx.where}")

            def case():
                v = sf()
                f = table.get(v)
                if f is None:
                    if v.__class__ is Meta:
                        sim.ev('case-on-metavalue')
                    f = others
                    if f is None:
                        sim.ev('case-no-choice')
                        return
                f()
            return case
        if k == 'assert':
            cf = self.cond(s[1], env, ctx)
            msg = s[2][1] if s[2] is not None and s[2][0] == 'str' else None
            if s[2] is not None:
                self.cx(s[2], env, STR, ctx)

            def asrt():
                if not cf():
                    sim.ev('assert-failed', msg)
                    sim.asserts_failed.append(msg)
            return asrt
        raise Unsupported(f"statement {k}")

    # ------------------------------------------------------------------ processes
    def elab_process(self, env, st, path, info):
        _, label, sens, decls, body, ln = st
        where = f"process {label or '?'} of {info['name']}"
        penv = Env(env, where)
        self.poison_vars_cur = []
        nv0 = len(self.V)
        for d in decls:
            self.declare_item(penv, d, path, where, label or '', info)
        proc_vars = set(range(nv0, len(self.V)))
        ctx = Sim.Ctx(where, proc_vars)
        run = self.c_seq(body, penv, ctx)
        poison = tuple(self.poison_vars_cur)
        if poison:
            V = self.V
            inner = run

            def run():
                for vid, pv in poison:
                    V[vid] = pv
                inner()
        # sensitivity list
        sens_sids = set()
        sens_masks = {}          # sid -> bit mask (entries that name a single element / static slice of a vector signal)
        if sens == 'all':
            sens_sids = set(ctx.reads)
            self.warn('process-all', where)
        else:
            if not sens:
                self.issue('empty-sensitivity-list', where)
            for s in sens:
                n = s
                while n[0] != 'id':
                    if n[0] not in ('call', 'slice'):
                        raise Unsupported("sensitivity entry")
                    n = n[1]
                emask = None
                if s[0] == 'call' and s[1][0] == 'id' and len(s[2]) == 1 and s[2][0].__class__ is tuple and s[2][0][0] != 'range':
                    vent = penv.names.get(s[1][1].lower()) or env.lookup(s[1][1].lower())
                    if vent is not None and vent[0] == 'sig' and vent[2][0] in VEC:
                        try:
                            ix = self.static_int(env, s[2][0], where)
                            if 0 <= ix < vent[2][1]:
                                emask = 1 << (ix if vent[2][2] == 'downto' else vent[2][1] - 1 - ix)
                        except Exception:       # noqa
                            emask = None
                ent = env.lookup(n[1].lower())
                if penv.names.get(n[1].lower()) is not None:
                    ent = penv.names[n[1].lower()]
                if ent is None or ent[0] != 'sig':
                    self.issue('type-error', f"sensitivity entry {n[1]} is not a signal in {where}")
                    continue
                if ent[3] == 'out':
                    self.issue('read-out-port', f"{n[1]} in sensitivity list of {where}")
                sens_sids.add(ent[1])
                if emask is None:
                    sens_masks[ent[1]] = -1
                elif sens_masks.get(ent[1]) != -1:
                    sens_masks[ent[1]] = sens_masks.get(ent[1], 0) | emask
            missing = ctx.unguarded_reads - sens_sids
            if missing:
                self.issue('incomplete-sensitivity-list',
                           f"{where}: reads {sorted(self.signame[x] for x in missing)} outside a clock-edge guard")
        self.add_proc(where, run, sens_sids, ctx, ('process', path, label), sens_masks)

    def add_proc(self, where, run, sens_sids, ctx, driver_id, sens_masks=None):
        idx = len(self.procs)
        self.procs.append((where, run))
        for sid in sens_sids:
            self.sens.setdefault(sid, []).append(idx)
            m = (sens_masks or {}).get(sid, -1)
            if m != -1:
                # woken only by events on the listed elements of the vector
                self.sens_mask[(sid, idx)] = m
        for sid, m in ctx.writes.items():
            d = self.drivers.setdefault(sid, {})
            d[driver_id] = d.get(driver_id, 0) | m

    def elab_concurrent(self, env, st, path, info):
        where = f"concurrent statement line {st[-2]} of {info['name']}"
        ctx = Sim.Ctx(where, set())
        group = st[-1]
        if st[0] == 'cassign':
            run = self.c_assign(st[1], st[2], env, ctx, True, st[3])
        else:
            _, sel, tgt, alts, ln, _g = st
            stt, sf, sst = self.cx(sel, env, None, ctx)
            r = self.target(tgt, env, ctx, True)
            table = {}
            others = None
            seen_others = False
            if r is not None:
                tt, rk, rid, steps = r
                upd = self.make_update(steps)
            for v, chs in alts:
                if r is not None:
                    vt, vf, vst = self.cx(v, env, tt, ctx)
                    self.check_assignable(tt, vt, f"{where}")
                else:
                    vt, vf, vst = self.cx(v, env, None, ctx)
                for ch in chs:
                    if ch == ('others',):
                        if seen_others:
                            self.issue('duplicate-choice', f"others twice in {where}")
                        seen_others = True
                        others = vf
                        continue
                    if seen_others:
                        self.issue('others-not-last', where)
                    ct, cf, cst = self.cx(ch, env, self.operand_hint(stt) if stt[0] != 'any' else None, ctx)
                    if stt[0] == 'any' or ct[0] == 'any':
                        continue
                    if ct[0] == 'lit' and stt[0] in VEC:
                        ct = (stt[0], ct[1], 'downto')
                    self.check_assignable(stt, ct, f"select choice in {where}")
                    if cst is None:
                        self.issue('non-static-choice', where)
                        continue
                    if cst[0] in table:
                        self.issue('duplicate-choice', f"{cst[0]!r} in {where}")
                    table[cst[0]] = vf
            if not seen_others:
                self.issue('select-without-others', where)
            sim = self
            if r is None:
                run = lambda: None     # noqa
            else:
                sched = self.sched
                S = self.S

                def run():
                    v = sf()
                    f = table.get(v)
                    if f is None:
                        if v.__class__ is Meta:
                            sim.ev('select-on-metavalue')
                        f = others
                        if f is None:
                            sim.ev('select-no-choice')
                            return
                    val = f()
                    if upd is None:
                        sched[rid] = val
                    else:
                        cur = sched[rid] if rid in sched else S[rid]
                        sched[rid] = upd(cur, val)
        self.add_proc(where, run, set(ctx.reads), ctx, ('concurrent', path, group))

    def elab_instance(self, env, st, path, info):
        _, label, lib, en, an, gm, pm, ln = st
        where = f"instance {label} of {info['name']}"
        if gm:
            raise Unsupported("generic map")
        key = en.lower()
        if key not in self.entities:
            if lib.lower() != 'work':
                raise Unsupported(f"external entity {lib}.{en}")
            self.issue('unknown-entity', f"{where}: work.{en}")
            raise ElabError(f"{where}: entity {en} not found in text")
        sub = self.entities[key]
        if an is not None and key in self.archs and self.archs[key][1].lower() != an.lower():
            self.issue('unknown-architecture', f"{where}: {en}({an})")
        # emitted before use?
        order = [k for kind, k in self.unit_order if kind == 'entity']
        if order.index(key) > order.index(info['name'].lower()):
            self.issue('entity-used-before-declared', f"{where}: {en}")
        formals = {p[0].lower(): p for p in sub[3]}
        portmap = {}
        seen = set()
        sub_path = path + label + '.'
        for f, a in pm:
            fconv = None
            if f.__class__ is tuple:
                _, fconv, f = f
            fl = f.lower()
            if fl not in formals:
                self.issue('unknown-formal', f"{f} in {where}")
                continue
            if fl in seen:
                self.issue('duplicate-association', f"{f} in {where}")
            seen.add(fl)
            fn_, mode, fst, _d, _ln = formals[fl]
            # the formal's type is evaluated in the sub entity (only predefined types occur in ports,
            # enum / array port types would need a package and are not emitted)
            ft = self.mk_type(Env(None, ''), fst, f"formal {f}")
            if a == ('open',):
                continue
            if fconv is not None:
                # type_mark(formal) => actual : the actual sees the converted type (closely related vector types only)
                if mode == 'in' or fconv.lower() not in VEC_NAME or ft[0] not in VEC_NAME.values():
                    self.issue('type-error', f"conversion {fconv}({f}) on the formal of {mode} port in {where}")
                    continue
                ft_actual = (VEC_NAME[fconv.lower()], ft[1], ft[2])
            else:
                ft_actual = ft
            ctx = Sim.Ctx(where, set())
            plain = a[0] == 'id'
            if mode == 'in':
                at, afn, ast = self.cx(a, env, ft, ctx)
                self.check_assignable(ft, at, f"port association {f} in {where}")
                if plain and env.lookup(a[1].lower()) and env.lookup(a[1].lower())[0] == 'sig':
                    portmap[fl] = env.lookup(a[1].lower())[1]
                else:
                    hs = self.new_sig(sub_path + f, ft, self.default_value(ft))
                    portmap[fl] = hs
                    sched = self.sched

                    def cp(afn=afn, hs=hs):
                        sched[hs] = afn()
                    self.add_proc(f"{where} actual of {f}", cp, set(ctx.reads), Sim.Ctx(where), ('assoc', sub_path, f))
            elif mode in ('out', 'inout'):
                # actual must be a signal name, slice or element (no conversion in VHDL-93 on the actual side)
                n = a
                while n[0] in ('slice', 'call') and not (n[0] == 'call' and n[1][0] == 'id' and env.lookup(n[1][1].lower()) is None):
                    n = n[1]
                if n[0] != 'id':
                    self.issue('type-error', f"actual for {mode} port {f} in {where} is not a signal name")
                    continue
                wctx = Sim.Ctx(where, set())
                r = self.target(a, env, wctx, True)
                if r is None:
                    continue
                tt, rk, rid, steps = r
                self.check_assignable(ft_actual, tt, f"port association {f} in {where}")
                inst_driver = ('instance', path, label, f)
                # every output port of an instance is one source of its actual: model it as its own driver
                # (a child signal + a copy process) so that the driver analysis sees one driver per formal
                hs = self.new_sig(sub_path + f, ft, self.default_value(ft))
                portmap[fl] = hs
                upd = self.make_update(steps)
                sched = self.sched
                S = self.S

                def cpo(hs=hs, rid=rid, upd=upd):
                    if upd is None:
                        sched[rid] = S[hs]
                    else:
                        cur = sched[rid] if rid in sched else S[rid]
                        sched[rid] = upd(cur, S[hs])
                c2 = Sim.Ctx(where)
                c2.writes = dict(wctx.writes)
                self.add_proc(f"{where} actual of {f}", cpo, {hs}, c2, inst_driver)
                if mode == 'inout':
                    raise Unsupported("inout port association")
        for fl, p in formals.items():
            if fl not in seen:
                if p[1] == 'in' and p[3] is None:
                    self.issue('unassociated-input', f"{p[0]} in {where}")
        self.elaborate(en, portmap, sub_path)

    def check_drivers(self):
        for sid, d in self.drivers.items():
            ids = list(d.items())
            for i in range(len(ids)):
                for j in range(i + 1, len(ids)):
                    if ids[i][1] & ids[j][1]:
                        self.issue('multiple-drivers',
                                   f"signal {self.signame[sid]} driven by {self.fmt_driver(ids[i][0])} and {self.fmt_driver(ids[j][0])}")

    def fmt_driver(self, d):
        if d[0] == 'process':
            return f"process {d[1]}{d[2]}"
        if d[0] == 'concurrent':
            return f"concurrent block #{d[2]} ({self.group_names.get(d[2])}) in {d[1] or 'top'}"
        if d[0] == 'instance':
            return f"instance {d[1]}{d[2]}"
        return str(d)

    # ------------------------------------------------------------------ kernel
    def settle(self, initial=False):
        S = self.S
        procs = self.procs
        sens = self.sens
        if initial:
            woken = range(len(procs))
        else:
            woken = None
        for _ in range(self.delta_limit):
            if woken is None:
                sched = self.sched
                if not sched:
                    return
                changed = set()
                sens_mask = self.sens_mask
                chg_bits = {}
                for sid, v in sched.items():
                    if S[sid] != v or S[sid].__class__ is not v.__class__:
                        if sens_mask:
                            o = S[sid]
                            if o.__class__ in (int, Meta) and v.__class__ in (int, Meta) and o.__class__ is not bool and v.__class__ is not bool:
                                ov, om = (o.v, o.m) if o.__class__ is Meta else (o, 0)
                                nv, nm = (v.v, v.m) if v.__class__ is Meta else (v, 0)
                                chg_bits[sid] = (ov ^ nv) | (om ^ nm)
                        self.prev[sid] = S[sid]
                        S[sid] = v
                        changed.add(sid)
                sched.clear()
                if not changed:
                    return
                self.event = changed
                w = set()
                for sid in changed:
                    for p in sens.get(sid, ()):
                        if sens_mask:
                            m = sens_mask.get((sid, p))
                            if m is not None and sid in chg_bits and not (chg_bits[sid] & m):
                                continue
                        w.add(p)
                woken = sorted(w)
            for p in woken:
                procs[p][1]()
            self.event = frozenset()
            woken = None
        self.ev('combinational-loop')
        self.sched.clear()

    # ------------------------------------------------------------------ test-bench API
    def port_sid(self, name):
        return self.top['sig'][name.lower()]

    def set(self, name, v):
        sid = self.top['sig'][name.lower()]
        if v is True:
            v = True if self.sigtype[sid][0] == 'bool' else 1
        elif v is False:
            v = False if self.sigtype[sid][0] == 'bool' else 0
        self.sched[sid] = v

    def get(self, name):
        return self.S[self.top['sig'][name.lower()]]

    def get_path(self, path_name):
        return self.S[self.signame.index(path_name)]

    def ports(self):
        return list(self.top['ports'])

    def clock(self, clk='clk', n=1):
        sid = self.top['sig'][clk.lower()]
        for _ in range(n):
            self.sched[sid] = 0
            self.settle()
            self.sched[sid] = 1
            self.settle()

    def snapshot(self):
        return (tuple(self.S), tuple(self.V), dict(self.prev))

    def restore(self, snap):
        self.S[:] = snap[0]
        self.V[:] = snap[1]
        self.prev = dict(snap[2])
        self.sched.clear()

    def state_key(self):
        return (tuple(self.S), tuple(self.V))


def fmt(v, w=None):
    """printable form of a value"""
    if v.__class__ is Meta:
        if w is None:
            w = max(v.m.bit_length(), v.v.bit_length(), 1)
        return ''.join('X' if (v.m >> i) & 1 else str((v.v >> i) & 1) for i in range(w - 1, -1, -1))
    if v.__class__ is Uninit:
        return 'uninit'
    return v
