"""Joint-state exploration for component checks: a harness couples one vsim instance with one plain
Python reference model; both can be saved / restored, so every legal command is applied in every
reached joint state (breadth first) up to a budget, followed by long random runs."""
import copy
import random


class Harness:
    """subclass: implement build() -> (sim, model); commands(); apply(cmd) -> mismatch|None; model_key()"""

    def __init__(self):
        self.sim = None
        self.model = None
        self.base = None

    def start(self):
        self.sim, self.model = self.build()
        self.base = self.save()

    def save(self):
        return (self.sim.snapshot(), copy.deepcopy(self.model))

    def load(self, st):
        self.sim.restore(st[0])
        self.model = copy.deepcopy(st[1])

    def key(self):
        return (self.sim.state_key(), self.model_key())

    def model_key(self):
        raise NotImplementedError

    def commands(self):
        raise NotImplementedError

    def apply(self, cmd):
        raise NotImplementedError


def bfs(h, budget, max_depth=64):
    """returns (mismatch|None, stats)"""
    h.load(h.base)
    seen = {h.key()}
    frontier = [(h.base, [])]
    edges = 0
    depth = 0
    closed = True
    while frontier:
        nxt = []
        depth += 1
        if depth > max_depth:
            closed = False
            break
        for st, path in frontier:
            h.load(st)
            cmds = h.commands()
            for cmd in cmds:
                if edges >= budget:
                    closed = False
                    break
                h.load(st)
                m = h.apply(cmd)
                edges += 1
                if m:
                    return f"{m} (after commands {path + [cmd]})", {'states': len(seen), 'edges': edges, 'closed': False, 'depth': depth}
                k = h.key()
                if k not in seen:
                    seen.add(k)
                    nxt.append((h.save(), path + [cmd]))
            if edges >= budget:
                closed = False
                break
        if edges >= budget:
            break
        frontier = nxt
    return None, {'states': len(seen), 'edges': edges, 'closed': closed and not frontier, 'depth': depth}


def random_run(h, rnd, clocks, choose=None):
    h.load(h.base)
    hist = []
    for i in range(clocks):
        cmds = h.commands()
        cmd = choose(h, cmds, rnd) if choose else rnd.choice(cmds)
        hist.append(cmd)
        m = h.apply(cmd)
        if m:
            return f"{m} (random run, clock {i}, last commands {hist[-8:]})"
    return None
