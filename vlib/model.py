"""Reference model objects: the *same statement text* that CoHDL traces is executed by CPython over
these classes (DESIGN.md 1.2 "dual rendering").  Values are mv.MV; operators follow the documented
semantics implemented in vlib.mv; signal writes are deferred to the end of the step, variable
writes are immediate, pushes fall back to the default at the start of every executed step.
"""
from . import mv
from .mv import MV, SKIP, Reject


class ModelError(Exception):
    """the reference rendering cannot give a defined answer (generator produced an ill-typed or
    precondition-breaking program): the case is discarded and counted, never a violation"""


class _NullFull:
    def __init__(self, full):
        self.full = full


NULL = _NullFull(False)
FULL = _NullFull(True)


def lift(x):
    if isinstance(x, Ops):
        return x._mv()
    if isinstance(x, MV):
        return x
    if isinstance(x, bool):
        return mv.BOOL(x)
    if isinstance(x, int):
        return mv.INT(x)
    if isinstance(x, str):
        return mv.BV(len(x), int(x, 2))
    raise ModelError(f"cannot lift {x!r}")


def _chk(r):
    if r is SKIP:
        raise ModelError("undefined value (precondition / tagged corner)")
    return r


class Ops:
    """operator mixin: everything is computed on the current MV value"""

    def _mv(self):
        raise NotImplementedError

    def _bin(self, op, o, swap=False):
        try:
            a, b = self._mv(), lift(o)
            if swap:
                a, b = b, a
            return MVal(_chk(mv.binop(op, a, b)))
        except Reject as e:
            raise ModelError(str(e))

    def _cmp(self, op, o):
        try:
            return MVal(_chk(mv.compare(op, self._mv(), lift(o))))
        except Reject as e:
            raise ModelError(str(e))

    def __add__(self, o): return self._bin('+', o)
    def __radd__(self, o): return self._bin('+', o, True)
    def __sub__(self, o): return self._bin('-', o)
    def __rsub__(self, o): return self._bin('-', o, True)
    def __mul__(self, o): return self._bin('*', o)
    def __rmul__(self, o): return self._bin('*', o, True)
    def __and__(self, o): return self._bin('&', o)
    def __or__(self, o): return self._bin('|', o)
    def __xor__(self, o): return self._bin('^', o)
    def __matmul__(self, o): return self._bin('@', o)
    def __lshift__(self, o): return self._bin('<<', o)
    def __rshift__(self, o): return self._bin('>>', o)
    def __eq__(self, o): return self._cmp('==', o)
    def __ne__(self, o): return self._cmp('!=', o)
    def __lt__(self, o): return self._cmp('<', o)
    def __le__(self, o): return self._cmp('<=', o)
    def __gt__(self, o): return self._cmp('>', o)
    def __ge__(self, o): return self._cmp('>=', o)
    __hash__ = None

    def _un(self, op):
        try:
            return MVal(_chk(mv.unop(op, self._mv())))
        except Reject as e:
            raise ModelError(str(e))

    def __invert__(self): return self._un('~')
    def __neg__(self): return self._un('neg')
    def __abs__(self): return self._un('abs')

    def __bool__(self):
        v = self._mv()
        return v.v != 0

    def __index__(self):
        v = self._mv()
        if v.kind not in ('u', 'int'):
            raise ModelError("index with non-unsigned")
        return v.v

    @property
    def unsigned(self): return MVal(mv.view('unsigned', self._mv()))
    @property
    def signed(self): return MVal(mv.view('signed', self._mv()))
    @property
    def bitvector(self): return MVal(mv.view('bitvector', self._mv()))

    def resize(self, n=None, *, zeros=0):
        v = self._mv()
        try:
            return MVal(mv.resize(v, n if n is not None else v.w + zeros, zeros))
        except Reject as e:
            raise ModelError(str(e))

    def msb(self, n=None): return MVal(_chk(mv.msb(self._mv(), n)))
    def lsb(self, n=None): return MVal(_chk(mv.lsb(self._mv(), n)))

    @property
    def width(self): return self._mv().w

    def _getitem_value(self, k):
        v = self._mv()
        try:
            if isinstance(k, slice):
                return MVal(mv.slice_(v, k.start, k.stop))
            i = k.__index__() if not isinstance(k, int) else k
            return MVal(_chk(mv.index(v, i)))
        except Reject as e:
            raise ModelError(str(e))


class MVal(Ops):
    __slots__ = ('m',)

    def __init__(self, m):
        self.m = m

    def _mv(self):
        return self.m

    def __getitem__(self, k):
        return self._getitem_value(k)

    def __repr__(self):
        return f"MVal({self.m})"


def const(kind, w, v):
    return MVal(mv.mkvec(kind, w, v) if kind in mv.VECK else MV(kind, None, 1 if v else 0))


class Holder(Ops):
    """a Signal / Variable / Port of primitive type"""
    is_signal = True

    def __init__(self, kind, w, default=None, name='?', noreset=False):
        self.kind = kind
        self.w = w
        self.name = name
        self.noreset = noreset
        self.default = None if default is None else self._norm(default)
        self.cur = self.default          # None = never assigned (undefined)
        self.pending = None
        self.mask_defined = None         # for partially written undefined objects: mask of defined bits
        self.pushed_in_step = False
        self.ctx = None

    def _norm(self, v):
        if isinstance(v, MV):
            return v
        if self.kind in mv.VECK:
            return mv.mkvec(self.kind, self.w, v)
        return MV(self.kind, None, 1 if v else 0)

    def _mv(self):
        if self.cur is None:
            raise ModelError(f"read of undefined object {self.name}")
        return self.cur

    def defined(self):
        return self.cur is not None

    def _convert(self, x):
        if isinstance(x, _NullFull):
            ones = ((1 << self.w) - 1) if self.kind in mv.VECK else 1
            return MV(self.kind, self.w if self.kind in mv.VECK else None, ones if x.full else 0)
        try:
            r = mv.convert(lift(x), self.kind, self.w)
        except Reject as e:
            raise ModelError(f"conversion: {e}")
        if r is None:
            raise ModelError("conversion outside the documented classes")
        return r

    # ---- whole-object assignment
    def _assign_signal(self, x):
        self.pending = self._convert(x)
        if self.ctx is not None:
            self.ctx.written.add(self)

    def _assign_now(self, x):
        self.cur = self._convert(x)

    def __ilshift__(self, x):
        if not self.is_signal:
            raise ModelError("<<= on a variable")
        self._assign_signal(x)
        return self

    def __imatmul__(self, x):
        if self.is_signal:
            raise ModelError("@= on a signal")
        self._assign_now(x)
        return self

    def __ixor__(self, x):
        if not self.is_signal:
            raise ModelError("^= on a variable")
        self._assign_signal(x)
        return self

    @property
    def next(self): raise ModelError("read of .next")
    @next.setter
    def next(self, x): self.__ilshift__(x)
    @property
    def push(self): raise ModelError("read of .push")
    @push.setter
    def push(self, x): self.__ixor__(x)
    @property
    def value(self): return MVal(self._mv())
    @value.setter
    def value(self, x): self.__imatmul__(x)

    @property
    def unsigned(self):
        return MView(self, self.w - 1, 0, kind='u') if self.kind in mv.VECK else MVal(mv.view('unsigned', self._mv()))

    @property
    def signed(self):
        return MView(self, self.w - 1, 0, kind='s') if self.kind in mv.VECK else MVal(mv.view('signed', self._mv()))

    @property
    def bitvector(self):
        return MView(self, self.w - 1, 0, kind='bv') if self.kind in mv.VECK else MVal(mv.view('bitvector', self._mv()))

    # ---- element / slice access
    def __getitem__(self, k):
        if isinstance(k, slice):
            return MView(self, k.start, k.stop)
        i = k.__index__() if not isinstance(k, int) else k
        if not 0 <= i < self.w:
            raise ModelError("index out of range")
        return MView(self, i, i, bit=True)

    def __setitem__(self, k, v):
        if not isinstance(v, MView) or v.h is not self:
            raise ModelError("item assignment")

    # ---- step protocol
    def commit(self):
        if self.pending is not None:
            self.cur = self.pending
            self.pending = None

    def _base_for_partial(self):
        b = self.pending if self.pending is not None else self.cur
        if b is None:
            raise ModelError(f"partial assignment to undefined object {self.name}")
        return b

    def state(self):
        return None if self.cur is None else self.cur.v


class MSig(Holder):
    is_signal = True


class MVar(Holder):
    is_signal = False


class MView(Ops):
    """slice [hi:lo] or bit of a holder; reads give the value at access time (index captured)"""

    def __init__(self, h, hi, lo, bit=False, kind='bv'):
        if hi is None or lo is None or not (0 <= lo <= hi < h.w):
            raise ModelError("slice bounds")
        self.h = h
        self.hi = hi
        self.lo = lo
        self.bit = bit
        self.kind = kind

    def _mv(self):
        v = self.h._mv()
        if self.bit:
            return mv.BIT((v.v >> self.lo) & 1)
        return mv.mkvec(self.kind, self.hi - self.lo + 1, v.v >> self.lo)

    # typed views of a stored object alias its storage: they are evaluated when used, not when created
    @property
    def unsigned(self):
        return self if self.bit else MView(self.h, self.hi, self.lo, kind='u')

    @property
    def signed(self):
        return self if self.bit else MView(self.h, self.hi, self.lo, kind='s')

    @property
    def bitvector(self):
        return self if self.bit else MView(self.h, self.hi, self.lo, kind='bv')

    def _piece(self, x):
        w = self.hi - self.lo + 1
        if isinstance(x, _NullFull):
            return ((1 << w) - 1) if x.full else 0
        x = lift(x)
        try:
            r = mv.convert(x, 'bit', None) if self.bit else mv.convert(x, self.kind, w)
        except Reject as e:
            raise ModelError(f"conversion: {e}")
        if r is None:
            raise ModelError("conversion outside the documented classes")
        return r.v

    def _merge(self, base, piece):
        w = self.hi - self.lo + 1
        m = ((1 << w) - 1) << self.lo
        return MV(base.kind, base.w, (base.v & ~m) | (piece << self.lo))

    def __ilshift__(self, x):
        h = self.h
        if not h.is_signal:
            raise ModelError("<<= on a variable")
        h.pending = self._merge(h._base_for_partial(), self._piece(x))
        if h.ctx is not None:
            h.ctx.written.add(h)
        return self

    __ixor__ = __ilshift__

    def __imatmul__(self, x):
        h = self.h
        if h.is_signal:
            raise ModelError("@= on a signal")
        if h.cur is None:
            raise ModelError("partial assignment to undefined variable")
        h.cur = self._merge(h.cur, self._piece(x))
        return self

    @property
    def next(self): raise ModelError("read of .next")
    @next.setter
    def next(self, x): self.__ilshift__(x)
    @property
    def value(self): return MVal(self._mv())
    @value.setter
    def value(self, x): self.__imatmul__(x)

    def __getitem__(self, k):
        if self.bit:
            raise ModelError("index of a bit")
        if isinstance(k, slice):
            return MView(self.h, self.lo + k.start, self.lo + k.stop)
        i = k.__index__() if not isinstance(k, int) else k
        if not 0 <= i <= self.hi - self.lo:
            raise ModelError("index out of range")
        return MView(self.h, self.lo + i, self.lo + i, bit=True)

    def __setitem__(self, k, v):
        pass


class MArr:
    """Signal / Variable of cohdl.Array[T, n] with primitive element type"""

    def __init__(self, kind, w, n, default=None, name='?', is_signal=True):
        self.elems = []
        for i in range(n):
            cls = MSig if is_signal else MVar
            d = None if default is None else default[i] if i < len(default) else 0
            self.elems.append(cls(kind, w, d, name=f"{name}[{i}]"))
        self.n = n
        self.is_signal = is_signal
        self.name = name

    def __getitem__(self, k):
        i = k.__index__() if not isinstance(k, int) else k
        if not 0 <= i < self.n:
            raise ModelError("array index out of range")
        return self.elems[i]

    def __setitem__(self, k, v):
        pass

    def __len__(self):
        return self.n

    def commit(self):
        for e in self.elems:
            e.commit()

    def state(self):
        return tuple(e.state() for e in self.elems)


class MRec:
    """std.Signal[Record] / std.NoresetSignal[Record]: one signal per field (no nesting)"""

    def __init__(self, name, fields, noreset):
        self.name = name
        self.elems = []
        for fn, k, w, d in fields:
            h = MSig(k, w, d, name=f"{name}.{fn}", noreset=noreset)
            setattr(self, fn, h)
            self.elems.append(h)

    def commit(self):
        for e in self.elems:
            e.commit()

    def state(self):
        return tuple(e.state() for e in self.elems)


class Ctx:
    """one sequential context of the reference rendering"""

    def __init__(self):
        self.objs = []
        self.pushed = []       # signals that are pushed somewhere in this context
        self.written = set()

    def add(self, o):
        self.objs.append(o)
        if isinstance(o, MArr):
            for e in o.elems:
                e.ctx = self
        else:
            o.ctx = self
        return o

    def begin_step(self):
        for s in self.pushed:
            if s.default is None:
                raise ModelError("pushed signal without default")
            s.pending = s.default

    def commit(self):
        for o in self.objs:
            o.commit()


class NS:
    """attribute namespace standing in for `self` of the entity"""
    pass
