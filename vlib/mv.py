"""MV: an independent typed value model of CoHDL's *documented* operator semantics (DESIGN.md 1.2,
appendix F).  Shares no code with cohdl._core.  Used as the oracle of C02 / C05.

A value is MV(kind, w, v): kind in {'bit','bool','bv','u','s','int'}; w = width (None for bit/bool/int);
v = Python int (vectors: the raw bit pattern 0..2^w-1; int: the number; bit/bool: 0/1).

evaluate() returns an MV, or SKIP when the case is a tagged corner / precondition break (nothing is
demanded there), and raises Reject when the expression lies outside the documented acceptance
domain (the generator must not produce such trees for value checks).
"""


class Reject(Exception):
    pass


class _Skip:
    def __repr__(self):
        return 'SKIP'


SKIP = _Skip()


class MV:
    __slots__ = ('kind', 'w', 'v')

    def __init__(self, kind, w, v):
        self.kind = kind
        self.w = w
        self.v = v

    def __repr__(self):
        return f"MV({self.kind},{self.w},{self.v})"

    def __eq__(self, o):
        return isinstance(o, MV) and (self.kind, self.w, self.v) == (o.kind, o.w, o.v)

    def __hash__(self):
        return hash((self.kind, self.w, self.v))

    @property
    def num(self):
        """the represented number"""
        if self.kind == 's':
            return self.v - (1 << self.w) if (self.v >> (self.w - 1)) & 1 else self.v
        return self.v

    @property
    def type(self):
        return (self.kind, self.w)


def mask(w):
    return (1 << w) - 1


def U(w, v):
    return MV('u', w, v & mask(w))


def S(w, v):
    return MV('s', w, v & mask(w))


def BV(w, v):
    return MV('bv', w, v & mask(w))


def BIT(v):
    return MV('bit', None, 1 if v else 0)


def BOOL(v):
    return MV('bool', None, 1 if v else 0)


def INT(v):
    return MV('int', None, v)


VECK = ('bv', 'u', 's')
NUMK = ('u', 's')


def mkvec(kind, w, v):
    return MV(kind, w, v & mask(w))


def int_fits(kind, w, i):
    if kind == 'u':
        return 0 <= i <= mask(w)
    return -(1 << (w - 1)) <= i < (1 << (w - 1))


def tdiv(a, b):
    q = abs(a) // abs(b)
    return -q if (a < 0) != (b < 0) else q


def binop(op, a, b):
    """arithmetic: + - * // % tdiv rem ; shifts << >> ; bitwise & | ^ ; concat @"""
    ka, kb = a.kind, b.kind
    if op in ('+', '-', '*', '//', '%', 'tdiv', 'rem'):
        if ka in NUMK and kb == ka:
            kind = ka
            wa, wb = a.w, b.w
            x, y = a.num, b.num
        elif ka in NUMK and kb == 'int':
            kind = ka
            wa = wb = a.w
            x, y = a.num, b.v
            if not int_fits(kind, a.w, y):
                return SKIP          # tagged corner: integer operand not representable in the vector type
        elif kb in NUMK and ka == 'int':
            kind = kb
            wa = wb = b.w
            x, y = a.v, b.num
            if not int_fits(kind, b.w, x):
                return SKIP
        else:
            raise Reject(f"{ka} {op} {kb}")
        if op == '//' and kind != 'u':
            raise Reject("// on signed")
        if op == '//' and (ka == 'int' or kb == 'int'):
            raise Reject("// with int")
        if op in ('+', '-'):
            W = max(wa, wb)
            r = x + y if op == '+' else x - y
        elif op == '*':
            W = wa + wb
            r = x * y
        else:
            if y == 0:
                return SKIP          # precondition: divisor != 0
            if op in ('//', 'tdiv'):
                W = wa
                r = tdiv(x, y)
                if kind == 's' and x == -(1 << (wa - 1)) and y == -1:
                    return SKIP      # tagged corner: min tdiv -1
            elif op == 'rem':
                W = wb
                r = x - tdiv(x, y) * y
            else:
                W = wb
                r = x % y            # sign of the divisor
        return mkvec(kind, W, r)
    if op in ('<<', '>>'):
        if ka not in NUMK:
            raise Reject(f"shift of {ka}")
        if kb == 'int':
            n = b.v
        elif kb == 'u':
            n = b.v
        else:
            raise Reject(f"shift by {kb}")
        if n < 0:
            return SKIP
        if op == '<<':
            return mkvec(ka, a.w, a.v << n)
        if ka == 'u':
            return mkvec('u', a.w, a.v >> n)
        return mkvec('s', a.w, a.num >> n)       # arithmetic
    if op in ('&', '|', '^'):
        if ka == 'bit' and kb == 'bit':
            r = {'&': a.v & b.v, '|': a.v | b.v, '^': a.v ^ b.v}[op]
            return BIT(r)
        if ka in VECK and ka == kb and a.w == b.w:
            r = {'&': a.v & b.v, '|': a.v | b.v, '^': a.v ^ b.v}[op]
            return mkvec(ka, a.w, r)
        raise Reject(f"{ka}[{a.w}] {op} {kb}[{b.w}]")
    if op == '@':
        def wv(x):
            if x.kind == 'bit':
                return 1, x.v
            if x.kind in VECK:
                return x.w, x.v
            raise Reject(f"concat of {x.kind}")
        wa, va = wv(a)
        wb, vb = wv(b)
        return BV(wa + wb, (va << wb) | vb)      # the left operand forms the most significant bits
    raise Reject(op)


def compare(op, a, b):
    ka, kb = a.kind, b.kind
    order = op in ('<', '<=', '>', '>=')
    if ka in NUMK and kb == ka:
        x, y = a.num, b.num
    elif ka in NUMK and kb == 'int':
        x, y = a.num, b.v
        if not int_fits(ka, a.w, y):
            return SKIP
    elif kb in NUMK and ka == 'int':
        x, y = a.v, b.num
        if not int_fits(kb, b.w, x):
            return SKIP
    elif not order and ka == 'bv' and kb == 'bv' and a.w == b.w:
        x, y = a.v, b.v
    elif not order and ka == 'bit' and kb == 'bit':
        x, y = a.v, b.v
    elif not order and ka == 'bool' and kb == 'bool':
        x, y = a.v, b.v
    elif ka == 'int' and kb == 'int':
        x, y = a.v, b.v
    else:
        raise Reject(f"{ka} {op} {kb}")
    r = {'==': x == y, '!=': x != y, '<': x < y, '<=': x <= y, '>': x > y, '>=': x >= y}[op]
    return BOOL(r)


def unop(op, a):
    k = a.kind
    if op == '~':
        if k == 'bit':
            return BIT(1 - a.v)
        if k in VECK:
            return mkvec(k, a.w, ~a.v)
        raise Reject(f"~{k}")
    if op == 'neg':
        if k == 's':
            if a.num == -(1 << (a.w - 1)):
                return SKIP       # tagged corner: -min
            return S(a.w, -a.num)
        if k == 'u':
            return U(a.w, -a.v)   # wraps modulo the width
        raise Reject(f"-{k}")
    if op == 'abs':
        if k == 's':
            if a.num == -(1 << (a.w - 1)):
                return SKIP
            return S(a.w, abs(a.num))
        raise Reject(f"abs {k}")
    if op == 'not':
        return BOOL(not truth(a))
    if op == 'bool':
        return BOOL(truth(a))
    raise Reject(op)


def truth(a):
    return a.v != 0


def view(which, a):
    if a.kind not in VECK:
        raise Reject(f"view of {a.kind}")
    return MV({'unsigned': 'u', 'signed': 's', 'bitvector': 'bv'}[which], a.w, a.v)


def resize(a, n, zeros=0):
    if a.kind not in NUMK:
        raise Reject("resize of non-numeric")
    if a.w + zeros > n:
        raise Reject("resize narrower")
    return mkvec(a.kind, n, a.num << zeros)


def index(a, i):
    if a.kind not in VECK:
        raise Reject("index of non-vector")
    if not 0 <= i < a.w:
        return SKIP            # precondition: index in range
    return BIT((a.v >> i) & 1)


def slice_(a, hi, lo):
    if a.kind not in VECK:
        raise Reject("slice of non-vector")
    if not (0 <= lo <= hi < a.w):
        raise Reject("slice bounds")
    return BV(hi - lo + 1, a.v >> lo)


def msb(a, n=None):
    if n is None:
        return index(a, a.w - 1)
    return slice_(a, a.w - 1, a.w - n)


def lsb(a, n=None):
    if n is None:
        return index(a, 0)
    return slice_(a, n - 1, 0)


def convert(a, kind, w):
    """C05 value rule for an accepted assignment of `a` to a target of type (kind, w); Reject when the
    property statement puts the conversion in a must-reject class; None when the statement is silent."""
    ka = a.kind
    if kind in ('bit', 'bool'):
        if ka in ('bit', 'bool'):
            return MV(kind, None, a.v)
        if ka == 'int':
            # an integer literal must be representable in the target: 0 and 1 are
            if a.v in (0, 1):
                return MV(kind, None, a.v)
            raise Reject("integer literal not representable in Bit")
        if ka in VECK:
            if kind == 'bit':
                raise Reject("vector -> Bit")
            return None
    if kind in VECK:
        if ka in ('bit', 'bool'):
            raise Reject("Bit -> vector")
        if ka == 'int':
            if kind == 'bv':
                return None
            if not int_fits(kind, w, a.v):
                raise Reject("integer literal not representable")
            return mkvec(kind, w, a.v)
        if kind == 'bv':
            if a.w != w:
                raise Reject("width-mismatched BitVector assignment")
            return BV(w, a.v)
        if ka == 'bv':
            if a.w != w:
                raise Reject("width-mismatched BitVector assignment")
            return mkvec(kind, w, a.v)
        if ka == kind:
            if a.w > w:
                raise Reject("narrowing")
            return mkvec(kind, w, a.num)
        if ka == 'u' and kind == 's':
            if a.w >= w:
                raise Reject("Unsigned -> Signed needs a strictly wider target")
            return S(w, a.v)
        if ka == 's' and kind == 'u':
            raise Reject("Signed -> Unsigned")
    return None
