"""C10  The compile-time Python subset evaluates exactly like CPython.

Oracle: CPython itself.  Every generated program is a plain Python function `prog()`; it is called
natively and inside a std.concurrent context whose result is handed to a @cohdl.pyeval probe (the
technique of the upstream test_call_01).  The two results are compared structurally (type and value,
recursively).  A call that CPython rejects with TypeError (argument binding) must be rejected.
 (a) signature x call-shape matrix: pos-only / normal / keyword-only parameters, defaults, *args,
     **kwargs x positional / keyword / *list / **dict / missing / duplicate / unexpected arguments;
 (b) random programs over closures, nonlocal, local defs and lambdas, classes with inheritance,
     super(), properties, __call__, operator overloading with NotImplemented fallbacks in both operand
     orders, rich comparisons, containers, starred unpacking, subscripts, comprehensions with filters,
     constant if / for / if-expressions, chained comparisons, and/or/not, isinstance/type."""
import random
import itertools
from collections import Counter
from vlib.harness import result, digest, violation, load_source, unload, compile_top, Rejected

PID = 'C10'
RULE = ("(a) signatures with <=2 parameters of each kind (+defaults, *a, **k) x call shapes built from <=3 positional values, "
        "keywords drawn from the parameter names and one foreign name, optional *[..] and **{..} (quick: sampled, thorough: "
        "larger sample); (b) seeded programs of 3-8 statements from a grammar over the constructs listed in C10.  "
        "distinct_nontrivial = distinct (signature, call) pairs / program texts whose verdict was decided: equal values, or "
        "rejected where CPython raises TypeError.")
ASSUMPTIONS = ["and/or/not yield the truth value inside CoHDL (documented deviation): generated and/or expressions are compared "
               "as bool(native)", "programs that CoHDL rejects although CPython evaluates them are counted, not flagged "
               "(the property allows rejection)"]
REQUIRE = {'quick': {'values_equal': 400, 'typeerror_rejected': 100, 'programs_equal': 150},
           'thorough': {'values_equal': 6000, 'typeerror_rejected': 1500, 'programs_equal': 2500}}

HEADER = """from __future__ import annotations
import cohdl
from cohdl import Entity, std

RESULT = {}


@cohdl.pyeval
def probe(key, val):
    RESULT[key] = val

"""


def gen_cases(tier, seed):
    n_calls = 160 if tier == 'quick' else 2400
    n_prog = 320 if tier == 'quick' else 6000
    cases = [{'k': 'calls', 'seed': seed * 40009 + i} for i in range(n_calls)]
    cases += [{'k': 'prog', 'seed': seed * 40013 + i} for i in range(n_prog)]
    return cases


# ------------------------------------------------------------------------------------------------
def norm(v, depth=0):
    """structural normal form: (type name, value)"""
    if depth > 8:
        return ('deep',)
    if isinstance(v, bool):
        return ('bool', v)
    if isinstance(v, int):
        return ('int', v)
    if isinstance(v, float):
        return ('float', v)
    if isinstance(v, str):
        return ('str', v)
    if v is None:
        return ('None',)
    if isinstance(v, tuple):
        return ('tuple', tuple(norm(x, depth + 1) for x in v))
    if isinstance(v, list):
        return ('list', tuple(norm(x, depth + 1) for x in v))
    if isinstance(v, dict):
        return ('dict', tuple((norm(k, depth + 1), norm(x, depth + 1)) for k, x in v.items()))
    if isinstance(v, type):
        return ('type', v.__name__)
    d = getattr(v, '__dict__', None)
    if d is not None:
        return ('obj', type(v).__name__, tuple(sorted((k, norm(x, depth + 1)) for k, x in d.items())))
    return ('other', type(v).__name__, repr(v))


def evaluate_both(src, names, cnt, seed, andor=()):
    """src defines functions named in `names`; returns violations"""
    viol = []
    full = HEADER + src + "\n"
    for n in names:
        full += (f"\nclass E_{n}(Entity):\n    def architecture(self):\n        @std.concurrent\n        def logic():\n"
                 f"            probe({n!r}, {n}())\n")
    try:
        mod = load_source(full, 'c10')
    except SyntaxError as e:
        cnt['generator_syntax_errors'] += 1
        return viol, []
    sigs = []
    try:
        for n in names:
            fn = getattr(mod, n)
            try:
                native = fn()
                nexc = None
            except TypeError as e:
                native, nexc = None, ('TypeError', str(e))
            except RecursionError:
                cnt['generator_errors'] += 1
                continue
            except Exception as e:      # noqa
                native, nexc = None, (type(e).__name__, str(e))
            if nexc is not None and nexc[0] != 'TypeError':
                cnt['native_other_exception'] += 1
                continue
            mod.RESULT.clear()
            try:
                compile_top(getattr(mod, f"E_{n}"))
                rejected = None
            except Rejected as r:
                rejected = r
            if nexc is not None:
                if rejected is None:
                    viol.append(violation('accepts-call-that-cpython-rejects',
                                          f"{n}: CPython raises TypeError({nexc[1]}) but CoHDL evaluated it to {mod.RESULT.get(n)!r}",
                                          source=src))
                else:
                    cnt['typeerror_rejected'] += 1
                    sigs.append(digest(src, n))
                continue
            if rejected is not None:
                cnt['cpython_ok_cohdl_rejected'] += 1
                cnt['cohdl_rejected:' + rejected.msg[:44].replace('\n', ' ')] += 1
                continue
            if n not in mod.RESULT:
                viol.append(violation('probe-not-reached', f"{n}: compiled without evaluating the call", source=src))
                continue
            got = mod.RESULT[n]
            want = native
            if n in andor:
                want = bool(native)
            if norm(got) != norm(want):
                viol.append(violation('value-differs-from-cpython',
                                      f"{n}: CPython gives {want!r}, CoHDL's compile-time evaluation gives {got!r}", source=src))
            else:
                cnt['values_equal'] += 1
                sigs.append(digest(src, n))
    finally:
        unload(mod)
    return viol, sigs


# ------------------------------------------------------------------------------------------------ (a) calls
def gen_signature(rnd):
    npos, nnorm, nkw = rnd.randint(0, 2), rnd.randint(0, 2), rnd.randint(0, 2)
    names = []
    parts = []
    # defaults must be trailing among positional parameters
    positional = [f"p{i}" for i in range(npos)] + [f"n{i}" for i in range(nnorm)]
    ndef = rnd.randint(0, len(positional))
    first_default = len(positional) - ndef
    for i, n in enumerate(positional):
        s = n if i < first_default else f"{n}={100 + i}"
        parts.append(s)
        names.append(n)
        if i == npos - 1:
            parts.append('/')
    star = rnd.random() < 0.4
    if star:
        parts.append('*va')
    elif nkw:
        parts.append('*')
    for i in range(nkw):
        n = f"k{i}"
        parts.append(n if rnd.random() < 0.5 else f"{n}={200 + i}")
        names.append(n)
    dstar = rnd.random() < 0.4
    if dstar:
        parts.append('**kw')
    ret = ', '.join(names + (['va'] if star else []) + (['kw'] if dstar else []))
    return ', '.join(parts), f"({ret},)" if ret else "()", names


def gen_call(rnd, names):
    npos = rnd.randint(0, 3)
    args = [str(rnd.randint(1, 9)) for _ in range(npos)]
    if rnd.random() < 0.25:
        args.append('*[' + ', '.join(str(rnd.randint(10, 19)) for _ in range(rnd.randint(0, 2))) + ']')
    pool = names + ['zz', 'yy']
    kws = []
    for n in rnd.sample(pool, rnd.randint(0, min(3, len(pool)))):
        kws.append(f"{n}={rnd.randint(20, 29)}")
    # ** expansions at any position among the keywords (f(**d, x=1), f(x=1, **d), f(**a, k=1, **b)): the order of the
    # entries that reach the callee's **kw is observable (the results are compared with their insertion order)
    for _ in range(rnd.choice([0, 0, 0, 1, 1, 2])):
        d = {rnd.choice(pool): rnd.randint(30, 39) for _ in range(rnd.randint(1, 2))}
        kws.insert(rnd.randint(0, len(kws)), '**' + repr(d))
    return ', '.join(args + kws)


def run_calls(case):
    rnd = random.Random(case['seed'])
    cnt = Counter()
    src = ''
    names = []
    for i in range(10):
        sig, ret, pnames = gen_signature(rnd)
        src += f"def f{i}({sig}):\n    return {ret}\n\n"
        for j in range(3):
            call = gen_call(rnd, pnames)
            src += f"def c{i}_{j}():\n    return f{i}({call})\n\n"
            names.append(f"c{i}_{j}")
    viol, sigs = evaluate_both(src, names, cnt, case['seed'])
    sample = {'seed': case['seed'], 'source_head': src[:500]} if case['seed'] % 50 == 0 else None
    return result(sig=sigs or None, viol=viol, cnt=dict(cnt), sample=sample, evals=len(names))


# ------------------------------------------------------------------------------------------------ (b) programs
CLASSES = '''
class Num:
    def __init__(self, v, tag=0):
        self.v = v
        self.tag = tag

    def __add__(self, other):
        if isinstance(other, Num):
            return Num(self.v + other.v, self.tag + 1)
        if isinstance(other, int):
            return Num(self.v + other, self.tag + 2)
        return NotImplemented

    def __radd__(self, other):
        if isinstance(other, int):
            return Num(other + self.v, self.tag + 3)
        return NotImplemented

    def __sub__(self, other):
        if isinstance(other, Num):
            return Num(self.v - other.v, self.tag + 4)
        return NotImplemented

    def __rsub__(self, other):
        return Num(other - self.v, self.tag + 5)

    def __mul__(self, other):
        if isinstance(other, int):
            return Num(self.v * other, self.tag + 6)
        return NotImplemented

    def __rmul__(self, other):
        return Num(other * self.v, self.tag + 7)

    def __neg__(self):
        return Num(-self.v, self.tag + 8)

    def __call__(self, k):
        return self.v * k + self.tag

    @property
    def double(self):
        return self.v * 2


class Lim:
    """rich comparisons only with plain numbers; the reflected method is needed when the number is on the left"""
    def __init__(self, v):
        self.v = v

    def __lt__(self, other): return self.v < other
    def __le__(self, other): return self.v <= other
    def __gt__(self, other): return self.v > other
    def __ge__(self, other): return self.v >= other
    def __eq__(self, other): return self.v == other
    def __ne__(self, other): return self.v != other
    __hash__ = None


class Base:
    def __init__(self, a):
        self.a = a

    def f(self, x):
        return self.a + x

    def g(self):
        return self.f(1) * 2


class Mid(Base):
    def __init__(self, a, b):
        super().__init__(a + 1)
        self.b = b

    def f(self, x):
        return super().f(x) * self.b


class Leaf(Mid):
    def g(self):
        return super().g() - self.a

'''


class ProgGen:
    def __init__(self, rnd):
        self.r = rnd
        self.n = 0
        self.ints = []       # names bound to ints

    def fresh(self, p='v'):
        self.n += 1
        return f"{p}{self.n}"

    def const(self):
        return str(self.r.choice([0, 1, 2, 3, 5, 7, -1, -4, 10]))

    def int_expr(self, d=2):
        r = self.r
        if d <= 0 or r.random() < 0.25:
            if self.ints and r.random() < 0.6:
                return r.choice(self.ints)
            return self.const()
        f = r.choice(['bin', 'bin', 'neg', 'ifexp', 'index', 'dict', 'len', 'minmax', 'abs', 'num', 'call', 'prop', 'lambda', 'sum2',
                      'cls', 'floordiv'])
        a, b = self.int_expr(d - 1), self.int_expr(d - 1)
        if f == 'bin':
            return f"({a} {r.choice(['+', '-', '*'])} {b})"
        if f == 'floordiv':
            return f"({a} {r.choice(['//', '%'])} {r.choice([2, 3, 5, -3])})"
        if f == 'neg':
            return f"(-{a})"
        if f == 'ifexp':
            return f"({a} if {self.cond(d - 1)} else {b})"
        if f == 'index':
            c = self.int_expr(d - 1)
            i = r.randrange(-3, 3)
            return f"{r.choice(['[', '('])}{a}, {b}, {c}{r.choice([']', ')']) if False else ''}"[:0] + (f"[{a}, {b}, {c}][{i}]" if r.random() < 0.5 else f"({a}, {b}, {c})[{i}]")
        if f == 'dict':
            return f"{{'a': {a}, 'b': {b}}}[{r.choice([repr('a'), repr('b')])}]"
        if f == 'len':
            return f"len([{a}, {b}, *[{self.const()}, {self.const()}]])"
        if f == 'minmax':
            return f"{r.choice(['min', 'max'])}({a}, {b})"
        if f == 'abs':
            return f"abs({a})"
        if f == 'num':
            op = r.choice(['+', '-', '*'])
            form = r.choice(['nn', 'ni', 'in'])
            if form == 'nn' and op != '*':
                return f"(Num({a}) {op} Num({b})).v"
            if form == 'ni' and op != '-':
                return f"(Num({a}) {op} {b}).{r.choice(['v', 'tag', 'double'])}"
            return f"({a} {op} Num({b})).{r.choice(['v', 'tag'])}"
        if f == 'call':
            return f"Num({a}, {r.randint(0, 3)})({b})"
        if f == 'prop':
            return f"Num({a}).double"
        if f == 'lambda':
            return f"(lambda q, r={self.const()}: q * 2 + r)({a})"
        if f == 'sum2':
            x1, x2 = self.fresh('cx'), self.fresh('cx')
            return f"([{x1} * 2 for {x1} in [{a}, {b}, {self.const()}] if {x1} > 0][{0}] if len([{x2} for {x2} in [{a}, {b}] if {x2} > 0]) > 0 else {b})"
        if f == 'cls':
            k = r.choice(['Base', 'Mid', 'Leaf'])
            args = a if k == 'Base' else f"{a}, {r.randint(1, 3)}"
            return f"{k}({args}).{r.choice(['g()', 'f(2)', 'a'])}"
        return a

    def cond(self, d=1):
        r = self.r
        a, b = self.int_expr(d), self.int_expr(d)
        f = r.choice(['cmp', 'cmp', 'chain', 'not', 'and', 'or', 'isinst', 'typeis'])
        op = r.choice(['<', '<=', '>', '>=', '==', '!='])
        if f == 'cmp':
            return f"({a} {op} {b})"
        if f == 'chain':
            return f"({a} {op} {b} {r.choice(['<', '<=', '>', '>='])} {self.int_expr(d)})"
        if f == 'not':
            return f"(not ({a} {op} {b}))"
        if f in ('and', 'or'):
            return f"(({a} {op} {b}) {f} ({b} {r.choice(['<', '>='])} {a}))"
        if f == 'isinst':
            return f"isinstance({a}, {r.choice(['int', 'str', '(int, str)'])})"
        return f"(type({a}) is {r.choice(['int', 'bool'])})"

    def value_expr(self):
        """an expression whose value is a container / tuple / comparison result"""
        r = self.r
        f = r.choice(['tuple', 'list', 'dict', 'listcomp', 'dictcomp', 'star', 'lim', 'limchain', 'cond', 'nested', 'enumzip', 'slice'])
        a, b, c = self.int_expr(), self.int_expr(), self.int_expr(1)
        if f == 'tuple':
            return f"({a}, {b}, ({c},))"
        if f == 'list':
            return f"[{a}, [{b}, {c}], {self.const()}]"
        if f == 'dict':
            return f"{{'x': {a}, 1: {b}, 'n': {{'y': {c}}}}}"
        if f == 'listcomp':
            x1 = self.fresh('cx')
            k = r.random()
            if k < 0.35:
                # several filter clauses: all of them must hold
                return (f"[{x1} + {a} for {x1} in range({r.randint(3, 9)}) if {x1} {r.choice(['>', '>=', '!='])} {r.randint(0, 4)} "
                        f"if {x1} {r.choice(['<', '<=', '!='])} {r.randint(2, 8)}" + (f" if {x1} % 2 == {r.randint(0, 1)}" if r.random() < 0.4 else '') + "]")
            if k < 0.5:
                y1 = self.fresh('cy')
                return f"[{x1} * 10 + {y1} for {x1} in range({r.randint(1, 3)}) for {y1} in range({r.randint(1, 3)}) if {x1} != {y1}]"
            return f"[{x1} + {a} for {x1} in range({r.randint(0, 5)}) if {x1} % 2 == {r.randint(0, 1)}]"
        if f == 'dictcomp':
            k1, v1 = self.fresh('ck'), self.fresh('cv')
            if r.random() < 0.35:
                return (f"{{{k1}: {v1} * {r.randint(1, 3)} for {k1}, {v1} in zip(['a', 'b', 'c'], [{a}, {b}, {c}]) if {v1} != {self.const()} "
                        f"if {k1} != {r.choice(['a', 'b', 'c'])!r}}}")
            return f"{{{k1}: {v1} * {r.randint(1, 3)} for {k1}, {v1} in zip(['a', 'b', 'c'], [{a}, {b}, {c}]) if {v1} != {self.const()}}}"
        if f == 'star':
            return f"[*[{a}, {b}], *({c},), {self.const()}]"
        if f == 'lim':
            k = r.choice([3, 5])
            op = r.choice(['<', '<=', '>', '>=', '==', '!='])
            x = r.choice([k - 1, k, k + 1])
            return f"({x} {op} Lim({k}))" if r.random() < 0.6 else f"(Lim({k}) {op} {x})"
        if f == 'limchain':
            k = r.choice([3, 5])
            return f"({r.choice([k - 1, k, k + 1])} {r.choice(['<', '<='])} Lim({k}))"
        if f == 'cond':
            return self.cond(1)
        if f == 'nested':
            return f"({a}, [{b}, {{'k': ({c}, None)}}], 'txt', True)"
        if f == 'enumzip':
            k1, v1 = self.fresh('ci'), self.fresh('cv')
            return f"[({k1}, {v1}) for {k1}, {v1} in enumerate([{a}, {b}, {c}])]"
        return f"[{a}, {b}, {c}, 4, 5][{r.randint(0, 2)}:{r.randint(2, 5)}]"

    def program(self, name):
        r = self.r
        self.ints = []
        L = [f"def {name}():"]
        results = []
        for _ in range(r.randint(2, 6)):
            f = r.choice(['int', 'int', 'val', 'closure', 'nonlocal', 'localdef', 'forconst', 'ifconst', 'kwcall', 'localsig', 'localsig'])
            if f == 'int':
                v = self.fresh()
                L.append(f"    {v} = {self.int_expr()}")
                self.ints.append(v)
                results.append(v)
            elif f == 'val':
                v = self.fresh('w')
                L.append(f"    {v} = {self.value_expr()}")
                results.append(v)
            elif f == 'closure':
                fn, v = self.fresh('mk'), self.fresh()
                k = self.int_expr(1)
                L += [f"    def {fn}(base):", "        def inner(x, y=3):", f"            return base * x + y + {k}", "        return inner"]
                L.append(f"    {v} = {fn}({self.int_expr(1)})({self.int_expr(1)})")
                self.ints.append(v)
                results.append(v)
            elif f == 'nonlocal':
                fn, v, st = self.fresh('cnt'), self.fresh(), self.fresh('st')
                L += [f"    def {fn}():", f"        total = {self.const()}", "        def add(k):", "            nonlocal total",
                      "            return total + k", f"        return (add({self.const()}), add({self.const()}), add(2), total)"]
                L.append(f"    {v} = {fn}()")
                results.append(v)
            elif f == 'localdef':
                fn, v = self.fresh('loc'), self.fresh()
                L += [f"    def {fn}(a, b={self.const()}, *rest, c={self.const()}, **kw):", "        return (a, b, rest, c, kw)"]
                call = r.choice([f"{fn}(1)", f"{fn}(1, 2)", f"{fn}(1, 2, 3, 4)", f"{fn}(1, c=9)", f"{fn}(a=4, z=1)", f"{fn}(*[1, 2, 3], **{{'c': 5, 'q': 6}})"])
                L.append(f"    {v} = {call}")
                results.append(v)
            elif f == 'forconst':
                v = self.fresh('acc')
                n = r.randint(1, 4)
                i1 = self.fresh('ci')
                L.append(f"    {v} = [({self.int_expr(1)}) * {i1} for {i1} in range({n})]")
                results.append(v)
            elif f == 'localsig':
                # a function (or lambda) defined inside the traced code with a random signature: positional-only / normal /
                # keyword-only parameters, defaults anywhere they are legal; called with a valid random argument list
                fn, v = self.fresh('ls'), self.fresh()
                npos, nnorm, nkw = r.randint(0, 2), r.randint(0, 2), r.randint(0, 2)
                positional = [f"p{i}" for i in range(npos)] + [f"n{i}" for i in range(nnorm)]
                ndef = r.randint(0, len(positional))
                first_default = len(positional) - ndef
                parts, weights = [], []
                for i, n in enumerate(positional):
                    parts.append(n if i < first_default else f"{n}={r.randint(1, 9)}")
                    if i == npos - 1:
                        parts.append('/')
                kwonly = []
                if nkw:
                    parts.append('*')
                    for i in range(nkw):
                        dflt = r.random() < 0.5
                        parts.append(f"k{i}" if not dflt else f"k{i}={r.randint(1, 9)}")
                        kwonly.append((f"k{i}", dflt))
                allnames = positional + [k for k, _ in kwonly]
                expr = ' + '.join(f"{n} * {10 ** i}" for i, n in enumerate(allnames)) or '0'
                as_lambda = r.random() < 0.3
                if as_lambda:
                    L.append(f"    {fn} = lambda {', '.join(parts)}: {expr}")
                else:
                    L += [f"    def {fn}({', '.join(parts)}):", f"        return {expr}"]
                # a valid call: positional arguments for a prefix (at least the required positional-only ones), the remaining
                # required parameters by keyword, optional ones at random
                req_pos = min(first_default, npos)
                npass = r.randint(req_pos, len(positional))
                args = [str(r.randint(1, 9)) for _ in range(npass)]
                for i, n in enumerate(positional[npass:], start=npass):
                    if i < npos:
                        continue                      # positional-only with default, left at its default
                    if i < first_default or r.random() < 0.4:
                        args.append(f"{n}={r.randint(1, 9)}")
                for k, dflt in kwonly:
                    if not dflt or r.random() < 0.4:
                        args.append(f"{k}={r.randint(1, 9)}")
                L.append(f"    {v} = {fn}({', '.join(args)})")
                self.ints.append(v)
                results.append(v)
            elif f == 'ifconst':
                v = self.fresh()
                # (names are single-assignment inside traced code: the branches return)
                fn = self.fresh('pick')
                L += [f"    def {fn}(q):", f"        if q > {self.const()}:", f"            return {self.int_expr(1)}", f"        elif q == {self.const()}:",
                      f"            return {self.int_expr(1)}", f"        return {self.int_expr(1)}"]
                L.append(f"    {v} = {fn}({self.int_expr(1)})")
                self.ints.append(v)
                results.append(v)
            else:
                fn, v = self.fresh('kw'), self.fresh()
                L += [f"    def {fn}(a, /, b, *, c=7):", "        return a * 100 + b * 10 + c"]
                L.append(f"    {v} = {r.choice([f'{fn}(1, 2)', f'{fn}(1, b=2, c=3)', f'{fn}(1, 2, c=4)'])}")
                self.ints.append(v)
                results.append(v)
        L.append(f"    return ({', '.join(results)},)")
        return '\n'.join(L) + '\n'


def run_prog(case):
    rnd = random.Random(case['seed'])
    cnt = Counter()
    g = ProgGen(rnd)
    src = CLASSES
    names = []
    for i in range(3):
        n = f"prog{i}"
        src += '\n' + g.program(n)
        names.append(n)
    # and/or yield the truth value in CoHDL: dedicated programs whose *result* is the and/or expression
    andor = []
    for i in range(2):
        n = f"ao{i}"
        a, b = g.const(), g.const()
        src += f"\ndef {n}():\n    return ({a} {rnd.choice(['and', 'or'])} {b})\n"
        names.append(n)
        andor.append(n)
    viol, sigs = evaluate_both(src, names, cnt, case['seed'], andor=andor)
    cnt['programs_equal'] = len([s for s in sigs])
    sample = {'seed': case['seed'], 'program': src[len(CLASSES):len(CLASSES) + 700]} if case['seed'] % 80 == 0 else None
    return result(sig=sigs or None, viol=viol, cnt=dict(cnt), sample=sample, evals=len(names))


def run_case(case):
    if case['k'] == 'calls':
        return run_calls(case)
    return run_prog(case)
