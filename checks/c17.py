"""C17  Serialisation round-trips with the documented bit layout.

A seeded generator composes serialisable types (Bit, bool, BitVector/Unsigned/Signed, cohdl.Array,
std.Array incl. nested, Records incl. nested / inherited / templated / inherited-templated, std.Enum,
FlagEnum, SFixed/UFixed, Serialized[T]).  An independent layout calculator (first field / element 0 in
the least significant bits, recursive) gives the offset of every leaf.  For each type a compiled entity
  * deserialises an input vector and exports every leaf field            (layout, from_bits),
  * re-serialises it                                                     (to_bits(from_bits(b)) == b),
  * builds a value from leaf inputs (keyword order shuffled, nested) and serialises it (to_bits layout,
    from_bits(to_bits(x)) == x on the leaves),
and vsim runs it over all bit patterns (<= 12 bits) or samples.  count_bits(T) is compared with the
calculated width, and the same expressions with constant operands give the compile-time layout.
BitField: every declared field is read and written through its bit range only."""
import random
from collections import Counter
from vlib import progen as pg
from vlib.harness import result, digest, violation, load_source, unload, compile_top, Rejected, repo_on_path
from vlib.vsim import Meta, Unsupported, fmt

PID = 'C17'
RULE = ("seeded type compositions, nesting <= 3, total width <= 12 bits exhaustive (all bit patterns) else 300 samples; "
        "per type: leaf export after from_bits, to_bits(from_bits(b)), to_bits of a value built from leaf inputs with shuffled "
        "keyword order, constant-operand instances; BitField layouts with nested / shifted sub-fields.  distinct_nontrivial "
        "= distinct type shapes whose every bit pattern / sample was compared.")
ASSUMPTIONS = ["vsim executes the emitted VHDL faithfully", "layout = first record field / array element 0 in the LSBs (C17)"]
REQUIRE = {'quick': {'types_compared': 120, 'comparisons': 20000}, 'thorough': {'types_compared': 2500, 'comparisons': 500000}}
_n = [0]

PRELUDE = pg.HEADER + """
from cohdl import Boolean
from cohdl.std.bitfield import BitField, Field


class WArg(int):
    pass


class TInner(std.Record[WArg]):
    a: Bit
    b: BitVector[WArg]
    c: Unsigned[WArg]


class TDerived(TInner):
    d: Signed[2]


class TOuter(std.Record[WArg]):
    i1: TInner[WArg]
    i2: TDerived[1]
    v: Signed[WArg]

"""


def gen_cases(tier, seed):
    n = 200 if tier == 'quick' else 4000
    cases = [{'k': 'type', 'seed': seed * 70001 + i, 'tier': tier} for i in range(n)]
    cases += [{'k': 'bitfield', 'seed': seed * 70003 + i} for i in range(24 if tier == 'quick' else 300)]
    return cases


# ------------------------------------------------------------------------------------------------ type trees
class TG:
    def __init__(self, rnd):
        self.r = rnd
        self.defs = []       # class definition source blocks
        self.bases = []      # names of record classes that other records derive from
        self.n = 0

    def name(self, p):
        self.n += 1
        return f"{p}{self.n}"

    def prim(self, maxw=4):
        r = self.r
        k = r.choice(['bit', 'bool', 'bv', 'u', 's', 'u', 'bv'])
        if k in ('bit', 'bool'):
            return (k,)
        return (k, r.randint(1, maxw))

    def gen(self, depth, budget):
        """returns a type tree whose width is <= budget (best effort)"""
        r = self.r
        if depth <= 0 or budget <= 3 or (depth < 3 and r.random() < 0.3):
            return self.prim(min(4, max(1, budget)))
        k = r.choice(['carr', 'sarr', 'rec', 'rec', 'rec_inh', 'trec', 'enum', 'flag', 'fixed', 'tder'])
        if k == 'carr':
            e = r.choice([('bit',), ('bv', r.randint(1, 3)), ('u', r.randint(1, 3)), ('s', r.randint(2, 3))])
            return ('carr', e, r.randint(1, max(1, min(4, budget // max(1, self.width(e))))))
        if k == 'sarr':
            e = self.gen(depth - 1, max(2, budget // 3))
            return ('sarr', e, r.randint(1, max(1, min(3, budget // max(1, self.width(e))))))
        if k in ('rec', 'rec_inh'):
            nf = r.randint(1, 3)
            fields = []
            left = budget
            for i in range(nf):
                t = self.gen(depth - 1, max(1, left // (nf - i)))
                fields.append((f"f{i}", t))
                left -= self.width(t)
            base = None
            if k == 'rec_inh':
                bname = self.name('RB')
                bf = [("g0", self.prim(2)), ("g1", self.prim(2))][:r.randint(1, 2)]
                self.defs.append(self.rec_def(bname, bf, None))
                base = (bname, bf)
                self.bases.append(bname)
            nm = self.name('R')
            self.defs.append(self.rec_def(nm, fields, base[0] if base else None))
            return ('rec', nm, (base[1] if base else []) + fields)
        if k == 'trec':
            W = r.randint(1, 3)
            return ('rec', f"TInner[{W}]", [('a', ('bit',)), ('b', ('bv', W)), ('c', ('u', W))])
        if k == 'tder':
            W = r.randint(1, 3)
            if r.random() < 0.5:
                return ('rec', f"TDerived[{W}]", [('a', ('bit',)), ('b', ('bv', W)), ('c', ('u', W)), ('d', ('s', 2))])
            inner = ('rec', f"TInner[{W}]", [('a', ('bit',)), ('b', ('bv', W)), ('c', ('u', W))])
            der = ('rec', "TDerived[1]", [('a', ('bit',)), ('b', ('bv', 1)), ('c', ('u', 1)), ('d', ('s', 2))])
            return ('rec', f"TOuter[{W}]", [('i1', inner), ('i2', der), ('v', ('s', W))])
        if k in ('enum', 'flag'):
            w = r.randint(2, 3)
            nm = self.name('EN')
            base = 'std.Enum' if k == 'enum' else 'std.enum.FlagEnum'
            vals = r.sample(range(1 << w), r.randint(2, min(4, 1 << w))) if k == 'enum' else [1 << i for i in range(w)]
            body = ''.join(f"    m{i} = {v}\n" for i, v in enumerate(vals))
            self.defs.append(f"class {nm}({base}[Unsigned[{w}]]):\n{body}\n")
            return ('enum', nm, w)
        if k == 'fixed':
            left = r.randint(-1, 3)
            right = left - r.randint(0, 3)
            return (r.choice(['sfixed', 'ufixed']), left, right)
        if k == 'ser':
            t = self.gen(depth - 1, max(2, budget // 2))
            if t[0] == 'ser':
                t = self.prim()
            return ('ser', t)
        return self.prim()

    def rec_def(self, name, fields, base):
        head = f"class {name}({base or 'std.Record'}):\n"
        body = ''.join(f"    {f}: {self.src(t)}\n" for f, t in fields) or "    pass\n"
        return head + body + "\n"

    def src(self, t):
        k = t[0]
        if k == 'bit':
            return 'Bit'
        if k == 'bool':
            return 'bool'
        if k in ('bv', 'u', 's'):
            return pg.tsrc(k, t[1])
        if k == 'carr':
            return f"Array[{self.src(t[1])}, {t[2]}]"
        if k == 'sarr':
            return f"std.Array[{self.src(t[1])}, {t[2]}]"
        if k in ('rec', 'enum'):
            return t[1]
        if k in ('sfixed', 'ufixed'):
            return f"std.{'SFixed' if k == 'sfixed' else 'UFixed'}[{t[1]}:{t[2]}]"
        if k == 'ser':
            return f"std.Serialized[{self.src(t[1])}]"
        raise ValueError(t)

    def width(self, t):
        k = t[0]
        if k in ('bit', 'bool'):
            return 1
        if k in ('bv', 'u', 's'):
            return t[1]
        if k in ('carr', 'sarr'):
            return t[2] * self.width(t[1])
        if k == 'rec':
            return sum(self.width(f[1]) for f in t[2])
        if k == 'enum':
            return t[2]
        if k in ('sfixed', 'ufixed'):
            return t[1] - t[2] + 1
        if k == 'ser':
            return self.width(t[1])
        raise ValueError(t)

    def leaves(self, t, path, off, out):
        """independent layout calculator: (access path, leaf kind, width, bit offset)"""
        k = t[0]
        if k in ('bit', 'bool', 'bv', 'u', 's'):
            out.append((path, k, self.width(t), off))
        elif k == 'enum':
            out.append((path + '.raw', 'u', t[2], off))
        elif k in ('sfixed', 'ufixed'):
            out.append((f"std.to_bits({path})", 'bv', self.width(t), off))
        elif k == 'ser':
            self.leaves(t[1], f"{path}.value()", off, out)
        elif k in ('carr', 'sarr'):
            ew = self.width(t[1])
            for i in range(t[2]):
                self.leaves(t[1], f"{path}[{i}]", off + i * ew, out)      # element 0 in the least significant bits
        elif k == 'rec':
            o = off
            for f, ft in t[2]:                                            # the first field in the least significant bits
                self.leaves(ft, f"{path}.{f}", o, out)
                o += self.width(ft)
        else:
            raise ValueError(t)
        return out

    def construct(self, t, leaf_src, rnd):
        """source that builds a value of type t from leaf sources (a dict path -> source), keyword order shuffled"""
        def go(t, path):
            k = t[0]
            if k in ('bit', 'bv', 'u', 's'):
                return leaf_src[path]
            if k == 'bool':
                return f"bool({leaf_src[path]})"
            if k == 'enum':
                return f"{t[1]}._unsafe_init_({leaf_src[path + '.raw']})"
            if k in ('sfixed', 'ufixed'):
                raw = leaf_src[f"std.to_bits({path})"]
                return f"{self.src(t)}(raw={raw}.{'signed' if k == 'sfixed' else 'unsigned'})"
            if k == 'ser':
                return f"{self.src(t)}({go(t[1], path + '.value()')})"
            if k == 'carr':
                return None
            if k == 'sarr':
                elems = [go(t[1], f"{path}[{i}]") for i in range(t[2])]
                if any(e is None for e in elems):
                    return None
                return f"{self.src(t)}([{', '.join(elems)}], _qualifier_=std.Value)"
            if k == 'rec':
                kws = []
                for f, ft in t[2]:
                    e = go(ft, f"{path}.{f}")
                    if e is None:
                        return None
                    kws.append(f"{f}={e}")
                rnd.shuffle(kws)
                return f"{t[1]}({', '.join(kws)}, _qualifier_=std.Value)"
            return None
        return go(t, 'x')


def run_type(case):
    rnd = random.Random(case['seed'])
    cnt = Counter()
    g = TG(rnd)
    t = g.gen(3, rnd.choice([6, 8, 10, 12, 12, 16]))
    W = g.width(t)
    if W == 0 or W > 40:
        return result(cnt={'skipped_width': 1})
    T = g.src(t)
    leaves = g.leaves(t, 'x', 0, [])
    _n[0] += 1
    cname = f"SR{_n[0]}"
    leaf_inputs = {p: f"self.i{j}" for j, (p, k, w, off) in enumerate(leaves)}
    built = g.construct(t, leaf_inputs, rnd)
    L = [PRELUDE] + g.defs + [f"class {cname}(Entity):", f"    b = Port.input(BitVector[{W}])", f"    rt = Port.output(BitVector[{W}])"]
    for j, (p, k, w, off) in enumerate(leaves):
        lt = {'bit': 'Bit', 'bool': 'Bit'}.get(k) or pg.tsrc(k, w)
        L.append(f"    l{j} = Port.output({lt})")
        L.append(f"    i{j} = Port.input({lt})")
    if built:
        L.append(f"    ser = Port.output(BitVector[{W}])")
        L.append(f"    rt2 = Port.output(BitVector[{W}])")
    via_ser = rnd.random() < 0.3       # the same round trips through the std.Serialized[T] container
    if via_ser:
        L += ["    def architecture(self):", "        @std.concurrent", "        def logic():", f"            sx = std.Serialized[{T}].from_raw(self.b)",
              "            x = sx.value()", "            self.rt <<= std.to_bits(x)"]
    else:
        L += ["    def architecture(self):", "        @std.concurrent", "        def logic():", f"            x = std.from_bits[{T}](self.b)",
              "            self.rt <<= std.to_bits(x)"]
    for j, (p, k, w, off) in enumerate(leaves):
        L.append(f"            self.l{j} <<= {p}")
    if built:
        if via_ser:
            L += [f"            y = {built}", f"            sy = std.Serialized[{T}](y)", "            self.ser <<= sy.bits()",
                  "            self.rt2 <<= std.to_bits(sy.value())"]
        else:
            L += [f"            y = {built}", "            self.ser <<= std.to_bits(y)",
                  f"            self.rt2 <<= std.to_bits(std.from_bits[{T}](std.to_bits(y)))"]
    # ---- the same with constant operands: deserialisation / serialisation folded at compile time
    consts = [rnd.randrange(1 << W) for _ in range(2)] if not via_ser else []
    for ci, cv in enumerate(consts):
        L.append(f"            xc{ci} = std.from_bits[{T}](BitVector[{W}]('{cv:0{W}b}'))")
        L.append(f"            self.crt{ci} <<= std.to_bits(xc{ci})")
        for j, (p, k, w, off) in enumerate(g.leaves(t, f"xc{ci}", 0, [])):
            L.append(f"            self.cl{ci}_{j} <<= {p}")
    hdr = L.index("    def architecture(self):")
    extra = []
    for ci, cv in enumerate(consts):
        extra.append(f"    crt{ci} = Port.output(BitVector[{W}])")
        for j, (p, k, w, off) in enumerate(leaves):
            lt = {'bit': 'Bit', 'bool': 'Bit'}.get(k) or pg.tsrc(k, w)
            extra.append(f"    cl{ci}_{j} = Port.output({lt})")
    L[hdr:hdr] = extra
    src = '\n'.join(L) + '\n'
    viol = []
    key = digest(repr(t))
    mod = load_source(src, 'c17')
    try:
        # ---- count_bits at Python level
        try:
            repo_on_path()
            from cohdl import std
            if g.bases and case['seed'] % 2 == 0:
                # serialise the base classes first: per-class layout caches must not be inherited by derived records
                for bname in g.bases:
                    std.count_bits(getattr(mod, bname))
                    cnt['base_record_serialised_first'] += 1
            if 'TDerived' in T and case['seed'] % 2 == 0:
                std.count_bits(mod.TInner[2])
            Tobj = eval(T, vars(mod))
            cb = std.count_bits(Tobj)
            cnt['count_bits_checked'] += 1
            if cb != W:
                viol.append(violation('count_bits-differs-from-layout', f"count_bits({T}) = {cb}, the layout has {W} bits", source=src))
        except Exception as e:      # noqa
            cnt['count_bits_raised'] += 1
        try:
            comp = compile_top(getattr(mod, cname))
        except Rejected as r:
            cnt['rejected'] += 1
            cnt['rejected:' + r.msg[:60].replace('\n', ' ')] += 1
            return result(viol=viol, cnt=dict(cnt))
    finally:
        unload(mod)
    try:
        sim = comp.sim(init={'b': 0, **{f"i{j}": 0 for j in range(len(leaves))}})
    except Unsupported as u:
        return result(cnt={'vsim_unsupported': 1}, inconclusive=f"vsim unsupported: {u}")
    enum_leaf = any(k2 == 'enum' for k2 in str(t))
    pats = list(range(1 << W)) if W <= 12 else [0, (1 << W) - 1] + [rnd.randrange(1 << W) for _ in range(300)]
    for b in pats:
        sim.set('b', b)
        # leaf inputs carry the same fields as b, so the constructed value must serialise to b again
        for j, (p, k, w, off) in enumerate(leaves):
            sim.set(f"i{j}", (b >> off) & ((1 << w) - 1))
        sim.settle()
        got = sim.get('rt')
        cnt['comparisons'] += 1
        if got.__class__ is Meta or got != b:
            viol.append(violation('to_bits-of-from_bits-not-identity', f"{T}: to_bits(from_bits(b)) = {fmt(got, W)} for b = {b:0{W}b}", source=src))
            break
        bad = False
        for j, (p, k, w, off) in enumerate(leaves):
            want = (b >> off) & ((1 << w) - 1)
            gl = sim.get(f"l{j}")
            cnt['comparisons'] += 1
            if gl.__class__ is Meta or gl != want:
                viol.append(violation('field-not-at-documented-offset',
                                      f"{T}: after from_bits({b:0{W}b}) the leaf {p} holds {fmt(gl, w)}, documented layout puts it at bits [{off + w - 1}:{off}] = {want:0{w}b}",
                                      source=src))
                bad = True
                break
        if bad:
            break
        if built:
            gs, g2 = sim.get('ser'), sim.get('rt2')
            cnt['comparisons'] += 2
            if gs.__class__ is Meta or gs != b:
                viol.append(violation('to_bits-layout', f"{T}: to_bits({built}) with the fields of {b:0{W}b} gives {fmt(gs, W)}", source=src))
                break
            if g2.__class__ is Meta or g2 != b:
                viol.append(violation('from_bits-of-to_bits-not-identity', f"{T}: to_bits(from_bits(to_bits(x))) = {fmt(g2, W)}, expected {b:0{W}b}", source=src))
                break
    for ci, cv in enumerate(consts):
        if viol:
            break
        got = sim.get(f"crt{ci}")
        cnt['comparisons'] += 1
        cnt['constant_operand_comparisons'] += 1
        if got.__class__ is Meta or got != cv:
            viol.append(violation('constant-to_bits-of-from_bits-not-identity', f"{T}: to_bits(from_bits(constant {cv:0{W}b})) folded to {fmt(got, W)}", source=src))
            break
        for j, (p, k, w, off) in enumerate(leaves):
            want = (cv >> off) & ((1 << w) - 1)
            gl = sim.get(f"cl{ci}_{j}")
            cnt['comparisons'] += 1
            if gl.__class__ is Meta or gl != want:
                viol.append(violation('constant-field-not-at-documented-offset',
                                      f"{T}: from_bits(constant {cv:0{W}b}) folded leaf {p} to {fmt(gl, w)}, documented layout puts it at bits [{off + w - 1}:{off}] = {want:0{w}b}",
                                      source=src))
                break
    if not viol:
        cnt['types_compared'] += 1
        cnt['with_value_construction'] += int(bool(built))
        cnt['via_serialized_container'] += int(via_ser)
    sample = {'type': T, 'width': W, 'leaves': [(p, off, w) for p, k, w, off in leaves][:8]} if case['seed'] % 25 == 0 else None
    return result(sig=key if not viol else None, viol=viol, cnt=dict(cnt), sample=sample)


# ------------------------------------------------------------------------------------------------ BitField
def run_bitfield(case):
    rnd = random.Random(case['seed'])
    cnt = Counter()
    W = rnd.choice([6, 8, 10])
    _n[0] += 1
    cname = f"BF{_n[0]}"
    nw = rnd.randint(2, 4)
    inner_fields = []
    for i in range(rnd.randint(1, 3)):
        hi = rnd.randrange(nw)
        lo = rnd.randint(0, hi)
        inner_fields.append((f"n{i}", hi, lo, rnd.choice(['', '.Unsigned', '.Signed']) if hi > lo else ''))
    fields = []
    for i in range(rnd.randint(2, 4)):
        hi = rnd.randrange(W)
        lo = rnd.randint(0, hi)
        fields.append((f"f{i}", hi, lo, rnd.choice(['', '.Unsigned', '.Signed']) if hi > lo else ''))
    noff = rnd.randint(0, W - nw)
    L = [PRELUDE, f"class Inner{cname}(BitField[{nw}]):"]
    for n, hi, lo, suf in inner_fields:
        L.append(f"    {n}: Field[{hi}:{lo}]{suf}" if hi > lo else f"    {n}: Field[{hi}]")
    L += ["", f"class Outer{cname}(BitField[{W}]):"]
    for n, hi, lo, suf in fields:
        L.append(f"    {n}: Field[{hi}:{lo}]{suf}" if hi > lo else f"    {n}: Field[{hi}]")
    L.append(f"    sub: Inner{cname}[{noff}]")
    allf = [(f"bf.{n}", hi, lo, suf) for n, hi, lo, suf in fields] + [(f"bf.sub.{n}", hi + noff, lo + noff, suf) for n, hi, lo, suf in inner_fields]
    wf = rnd.randrange(len(allf))
    L += ["", f"class {cname}(Entity):", "    clk = Port.input(Bit)", f"    b = Port.input(BitVector[{W}])", f"    wv = Port.input(BitVector[{W}])",
          f"    stored = Port.output(BitVector[{W}], default=Null)"]
    for j, (p, hi, lo, suf) in enumerate(allf):
        w = hi - lo + 1
        L.append(f"    r{j} = Port.output({'Bit' if hi == lo else 'BitVector[' + str(w) + ']'})")
    L += ["    def architecture(self):", f"        reg = std.Signal[Outer{cname}]()", f"        bf = std.Ref[Outer{cname}](self.b)",
          "        @std.concurrent", "        def logic():"]
    for j, (p, hi, lo, suf) in enumerate(allf):
        L.append(f"            self.r{j} <<= {p}" + ('.bitvector' if suf else ''))
    tp, thi, tlo, tsuf = allf[wf]
    tgt = tp.replace('bf.', 'reg.', 1)
    tw = thi - tlo + 1
    val = f"self.wv[{tw - 1}:0]" + {'': '', '.Unsigned': '.unsigned', '.Signed': '.signed'}[tsuf] if thi > tlo else "self.wv[0]"
    L += ["            self.stored <<= std.to_bits(reg)", "        @std.sequential(std.Clock(self.clk))", "        def proc():",
          f"            {tgt} <<= {val}"]
    src = '\n'.join(L) + '\n'
    mod = load_source(src, 'c17b')
    try:
        try:
            comp = compile_top(getattr(mod, cname))
        except Rejected as r:
            cnt['rejected'] += 1
            cnt['rejected_bitfield:' + r.msg[:60].replace('\n', ' ')] += 1
            return result(cnt=dict(cnt))
    finally:
        unload(mod)
    try:
        sim = comp.sim(init={'clk': 0, 'b': 0, 'wv': 0})
    except Unsupported as u:
        return result(cnt={'vsim_unsupported': 1}, inconclusive=f"vsim unsupported: {u}")
    viol = []
    for b in (list(range(1 << W)) if W <= 8 else [rnd.randrange(1 << W) for _ in range(300)]):
        sim.set('b', b)
        sim.settle()
        for j, (p, hi, lo, suf) in enumerate(allf):
            want = (b >> lo) & ((1 << (hi - lo + 1)) - 1)
            got = sim.get(f"r{j}")
            cnt['comparisons'] += 1
            if got.__class__ is Meta or got != want:
                viol.append(violation('bitfield-reads-wrong-bits', f"{p} declared as bits [{hi}:{lo}] reads {fmt(got)} from {b:0{W}b}", source=src))
                break
        if viol:
            break
    if not viol:
        # writes through one field touch exactly its bit range: all other bits of the register stay undefined ('U'),
        # the written range takes the value
        prev_known = 0
        for _ in range(40):
            wv = rnd.randrange(1 << W)
            sim.set('wv', wv)
            sim.clock()
            got = sim.get('stored')
            m = ((1 << tw) - 1) << tlo
            gv, gm = (got.v, got.m) if got.__class__ is Meta else (got, 0)
            cnt['comparisons'] += 1
            if gm & m or (gv & m) != ((wv & ((1 << tw) - 1)) << tlo):
                viol.append(violation('bitfield-writes-wrong-bits', f"write of {wv & ((1 << tw) - 1):0{tw}b} through {tgt} [{thi}:{tlo}] leaves the register at {fmt(got, W)}", source=src))
                break
            if (~gm & ((1 << W) - 1)) & ~m:
                viol.append(violation('bitfield-writes-outside-its-range', f"write through {tgt} [{thi}:{tlo}] also defined other bits: {fmt(got, W)}", source=src))
                break
    if not viol:
        cnt['bitfields_compared'] += 1
        cnt['types_compared'] += 1
    return result(sig=digest('bf', case['seed']) if not viol else None, viol=viol, cnt=dict(cnt))


def run_case(case):
    if case['k'] == 'type':
        return run_type(case)
    return run_bitfield(case)
