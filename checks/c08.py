"""C08  Intermediate values are written before read within every activation.

(a) placement enumeration: a value `t = x + K` is defined at every position of every small control-flow
    skeleton (if / elif / else, match with and without default, for-break chains with and without else,
    one level of inner nesting, optionally a clock boundary of a coroutine in between) and used at every
    other position.  An independent path enumeration over the skeleton decides whether the definition
    reaches the use on every path of the same activation.  Not reaching + accepted = violation; accepted
    designs are executed by vsim with every compiler temporary poisoned at the start of each activation,
    over all input valuations: a poison read = violation.
(b) the same poison monitor over the C01 / C03 / C04 generators (different seeds)."""
import random
import itertools
from collections import Counter
from vlib import progen as pg
from vlib import bodygen as bgm
from vlib.harness import result, digest, violation, load_source, unload, compile_top, Rejected
from vlib.vsim import Unsupported

PID = 'C08'
RULE = ("(a) all skeletons: construct in {if x{1,2,3 arms} x{else,no else}, match x{1,2,3 arms} x{default,none}, for-break "
        "x{2,3 items} x{else,none}} x definition site (any arm / else / before, plain or inside an inner if/else) x use site "
        "(after, any arm, inner if of the defining arm) x {plain process, coroutine with an await between definition and use}; "
        "(b) seeded C01/C03/C04 designs under the poison monitor; (c) signals constructed inside coroutines {no loop, while cond, while "
        "True..break} x {before/after an await} x read {same state, after 1/2 awaits, behind the loop} x {updated in between} x "
        "{checked, maybe_uninitialized}: poison on the alias variable, both flag settings must behave alike.  distinct_nontrivial = distinct skeleton signatures "
        "whose verdict was decided (rejected as required, or accepted and executed over all inputs) + distinct generated "
        "designs executed with >=1 temporary poisoned.")
ASSUMPTIONS = ["the back end's declaration table identifies compiler temporaries (they are the poisoned variables)",
               "vsim executes the emitted VHDL faithfully"]
REQUIRE = {'quick': {'local_signal_designs': 80, 'must_reject_rejected': 100, 'accepted_executed': 100, 'poisoned_activations': 10000},
           'thorough': {'local_signal_designs': 80, 'must_reject_rejected': 300, 'accepted_executed': 300, 'poisoned_activations': 100000}}

HEADER = pg.HEADER


# ------------------------------------------------------------------------------------------ skeletons
def constructs(tier):
    out = []
    for n in (1, 2, 3):
        for e in (False, True):
            out.append(('if', n, e))
            out.append(('match', n, e))
    for n in (2, 3):
        for e in (False, True):
            out.append(('for', n, e))
    return out


def sites(c):
    kind, n, e = c
    s = [('arm', i) for i in range(n)]
    if e:
        s.append(('else', 0))
    return s


def gen_cases(tier, seed):
    cases = []
    nests = (0, 1, 2)
    for c in constructs(tier):
        dsites = [('before', 0)] + sites(c)
        usites = [('after', 0)] + sites(c)
        for ds in dsites:
            for dn in (nests if ds[0] != 'before' else (0,)):
                for us in usites:
                    for un in ((0, 1) if us[0] != 'after' else (0,)):
                        for coro in (False, True):
                            for aw in ((0,) if not coro else (0, 1, 2)):
                                # aw: 0 no await, 1 await right before the use, 2 await right after the definition
                                if c[0] == 'for' and ds[0] == 'arm' and ds[1] > 0:
                                    continue      # all loop iterations share one body: arm index is irrelevant
                                if c[0] == 'for' and us[0] == 'arm' and us[1] > 0:
                                    continue
                                cases.append({'k': 'place', 'c': list(c), 'ds': list(ds), 'dn': dn, 'us': list(us), 'un': un,
                                              'coro': coro, 'aw': aw})
    rnd = random.Random(seed)
    if tier == 'quick':
        rnd.shuffle(cases)
        cases = cases[:1600]
    for c in cases:
        # the defined intermediate is a computed value or a reference obtained by a run-time subscript (whose index is the
        # intermediate); the context optionally carries the zero_init_temporaries attribute (initial values at elaboration
        # are no substitute for an assignment in the same activation)
        c['defkind'] = 'ref' if rnd.random() < 0.3 else 'value'
        c['zinit'] = rnd.random() < 0.2
    # (c) signals constructed inside a coroutine (their same-state alias is a compiler-generated variable) and read after awaits
    for loop in ('none', 'while-cond', 'while-true-break', 'while-cond-if'):
        for flag in (False, True):
            for pos in ('before-first-await', 'after-await'):
                for rd in ('same-state', 'after-await', 'after-two-awaits', 'after-loop'):
                    for upd in (False, True):
                        if loop != 'while-true-break' and rd == 'after-loop':
                            continue        # (the body of a conditional loop may never run: reading `s` behind it is undefined by the source itself)
                        cases.append({'k': 'localsig', 'loop': loop, 'flag': flag, 'pos': pos, 'rd': rd, 'upd': upd})
    n = 240 if tier == 'quick' else 6000
    for i in range(n):
        cases.append({'k': 'dyn', 'gen': ('c03', 'c01', 'c04')[i % 3], 'seed': seed * 7919 + 104729 + i, 'tier': tier})
    return cases


class Sk:
    """skeleton statement tree: ('seq', [..]) ('if', [(cond, seq)], else|None) ('match', [(pat, seq)], default|None)
    ('for', nitems, body_seq, else|None) ('DEF',) ('USE',) ('FILL', k) ('AWAIT',)"""


def build(case):
    kind, n, e = case['c']
    ds, dn, us, un, aw = tuple(case['ds']), case['dn'], tuple(case['us']), case['un'], case['aw']
    fill = itertools.count(1)

    def F():
        return ('FILL', next(fill))

    def place_def(block):
        d = [('DEF',)]
        if aw == 2:
            d.append(('AWAIT',))
        if dn == 0:
            block.extend(d)
        elif dn == 1:
            block.append(('if', [('self.c', d + [F()])], None))
        else:
            block.append(('if', [('self.c', [F()])], d + [F()]))

    def place_use(block):
        u = ([('AWAIT',)] if aw == 1 else []) + [('USE',)]
        if un == 0:
            block.extend(u)
        else:
            block.append(('if', [('self.b', u)], [F()]))
    top = []
    if ds[0] == 'before':
        place_def(top)
    arms = []
    for i in range(n):
        b = [F()]
        if ds == ('arm', i):
            place_def(b)
        if us == ('arm', i):
            place_use(b)
        arms.append(b)
    els = None
    if e:
        els = [F()]
        if ds[0] == 'else':
            place_def(els)
        if us[0] == 'else':
            place_use(els)
    if kind == 'if':
        conds = ['self.a', '(self.d == 1)', '(self.d == 2)']
        top.append(('if', [(conds[i], arms[i]) for i in range(n)], els))
    elif kind == 'match':
        top.append(('match', [(str(i), arms[i]) for i in range(n)], els))
    else:
        top.append(('for', n, arms[0], els))
    if us[0] == 'after':
        place_use(top)
    return top


def render(stmts, ind, L, defkind='value'):
    if not stmts:
        L.append('    ' * ind + 'pass')
    for s in stmts:
        p = '    ' * ind
        k = s[0]
        if k == 'DEF':
            L.append(p + ("t = (self.x + 1)" if defkind == 'value' else "t = m0[self.d]"))
        elif k == 'USE':
            L.append(p + "self.o0 <<= t")
        elif k == 'FILL':
            L.append(p + f"self.o1 <<= {s[1] % 8}")
        elif k == 'AWAIT':
            L.append(p + "await self.c")
        elif k == 'if':
            for i, (c, b) in enumerate(s[1]):
                L.append(p + f"{'if' if i == 0 else 'elif'} {c}:")
                render(b, ind + 1, L, defkind)
            if s[2] is not None:
                L.append(p + "else:")
                render(s[2], ind + 1, L, defkind)
        elif k == 'match':
            L.append(p + "match self.d:")
            for pat, b in s[1]:
                L.append(p + f"    case {pat}:")
                render(b, ind + 2, L, defkind)
            if s[2] is not None:
                L.append(p + "    case _:")
                render(s[2], ind + 2, L, defkind)
        elif k == 'for':
            items = ', '.join(['(self.a, self.y)', '(self.b, self.x)', '(self.c, self.y)'][:s[1]])
            L.append(p + f"for fc, fv in [{items}]:")
            L.append(p + "    if fc:")
            render(s[2], ind + 2, L, defkind)
            L.append(p + "        break")
            if s[3] is not None:
                L.append(p + "else:")
                render(s[3], ind + 1, L, defkind)


def paths(stmts, state, use_ok):
    """independent definite-assignment analysis by path enumeration.  state: is `t` defined in the current
    activation?  use_ok: list collecting, for every path reaching USE, whether t was defined.  returns list of states
    at the end of the block (one per path); a path that hits `break` ends the enclosing for"""
    states = [state]
    for s in stmts:
        k = s[0]
        nxt = []
        for st in states:
            if k == 'DEF':
                nxt.append(True)
            elif k == 'USE':
                use_ok.append(st)
                nxt.append(st)
            elif k == 'AWAIT':
                nxt.append(False)        # a clock boundary: nothing computed before survives
            elif k == 'FILL':
                nxt.append(st)
            elif k == 'if':
                for c, b in s[1]:
                    nxt.extend(paths(b, st, use_ok))
                nxt.extend(paths(s[2], st, use_ok) if s[2] is not None else [st])
            elif k == 'match':
                for pat, b in s[1]:
                    nxt.extend(paths(b, st, use_ok))
                nxt.extend(paths(s[2], st, use_ok) if s[2] is not None else [st])
            elif k == 'for':
                # item i taken (i = 0..n-1): the body runs once; or none taken: else branch / fall through
                for i in range(s[1]):
                    nxt.extend(paths(s[2], st, use_ok))
                nxt.extend(paths(s[3], st, use_ok) if s[3] is not None else [st])
        states = sorted(set(nxt))
    return states


_n = [0]


def run_place(case):
    cnt = Counter()
    viol = []
    sk = build(case)
    use_ok = []
    paths(sk, False, use_ok)
    reaches = bool(use_ok) and all(use_ok)
    # python scoping: a name bound inside the for body / a branch is visible afterwards, fine for CPython and CoHDL
    _n[0] += 1
    cname = f"PL{_n[0]}"
    L = [HEADER, f"class {cname}(Entity):", "    clk = Port.input(Bit)"]
    for nme in 'abc':
        L.append(f"    {nme} = Port.input(Bit)")
    L += ["    d = Port.input(Unsigned[2])", "    x = Port.input(Unsigned[3])", "    y = Port.input(Unsigned[3])",
          "    o0 = Port.output(Unsigned[3], default=0)", "    o1 = Port.output(Unsigned[3], default=0)",
          "    def architecture(self):", "        m0 = Signal[Array[Unsigned[3], 4]](name='m0')",
          "        @std.sequential(std.Clock(self.clk))", "        def feed():", "            m0[self.d] <<= self.y",
          "        @std.sequential(std.Clock(self.clk)" + (", attributes={'zero_init_temporaries': True})" if case.get('zinit') else ")"),
          f"        {'async ' if case['coro'] else ''}def proc():"]
    render(sk, 3, L, case.get('defkind', 'value'))
    src = '\n'.join(L) + '\n'
    sigkey = digest(case)
    cls = (f"{case['c'][0]}{'-coroutine' if case['coro'] else ''}{'-across-await' if case['aw'] else ''}"
           f"{'-indexed-reference' if case.get('defkind') == 'ref' else ''}{'-zero-init' if case.get('zinit') else ''}")
    mod = load_source(src, 'c08')
    try:
        try:
            comp = compile_top(getattr(mod, cname))
        except Rejected as r:
            cnt['rejected'] += 1
            if not reaches:
                cnt['must_reject_rejected'] += 1
            else:
                cnt['valid_but_rejected'] += 1
                cnt['valid_but_rejected:' + r.msg[:40]] += 1
            return result(sig=sigkey, cnt=dict(cnt))
        cnt['accepted'] += 1
        try:
            sim = comp.sim(init={'clk': 0, 'a': 0, 'b': 0, 'c': 0, 'd': 0, 'x': 0, 'y': 0})
        except Unsupported:
            cnt['vsim_unsupported'] += 1
            return result(cnt=dict(cnt), inconclusive='vsim unsupported')
        sim.events.clear()
        rnd = random.Random(7)
        vals = list(itertools.product((0, 1), (0, 1), (0, 1), range(4)))
        nclk = 0
        for rep in range(2):
            seq = vals[:] if rep == 0 else [rnd.choice(vals) for _ in range(200)]
            for a, b, c, d in seq:
                sim.set('a', a); sim.set('b', b); sim.set('c', c); sim.set('d', d)
                sim.set('x', rnd.randrange(8)); sim.set('y', rnd.randrange(8))
                sim.clock()
                nclk += 1
        cnt['poisoned_activations'] += nclk if comp.temps else 0
        cnt['accepted_executed'] += 1
        pr = sim.events.get('poison-read', 0)
        if not reaches:
            viol.append(violation(f'accepted-partial-definition:{cls}',
                                  f"definition does not reach the use on every path of one activation, but the design was "
                                  f"accepted ({'and the emitted process read a stale temporary ' + str(pr) + ' times' if pr else 'no stale read observed'}); case={case}",
                                  source=src, vhdl=comp.text))
        elif pr:
            viol.append(violation(f'poison-read:{cls}', f"{pr} reads of temporaries before they were written "
                                  f"(e.g. {sim.event_samples.get('poison-read')}); case={case}", source=src, vhdl=comp.text))
        sample = None
        if _n[0] % 200 == 1:
            sample = {'case': case, 'definition_reaches_use': reaches, 'accepted': True, 'source_tail': src[-600:]}
        return result(sig=sigkey, viol=viol, cnt=dict(cnt), sample=sample)
    finally:
        unload(mod)


def run_dyn(case):
    rnd = random.Random(case['seed'])
    if case['gen'] == 'c03':
        spec, feats = bgm.gen_seq_design(rnd, size=rnd.choice([4, 8, 12]))
    elif case['gen'] == 'c01':
        spec, feats = bgm.gen_coro_design(rnd, size=rnd.choice([4, 8, 12]), depth=rnd.choice([2, 3]))
    else:
        spec, feats = bgm.gen_reset_design(rnd, size=rnd.choice([4, 8]))
    out = pg.run_design(spec, rnd, explore_budget=60, random_clocks=300, max_depth=8)
    cnt = Counter({k: v for k, v in out['cnt'].items() if not k.startswith('feat:')})
    viol = []
    sig = None
    if out['status'] == 'compared':
        ntemps = len(out['comp'].temps)
        if ntemps:
            cnt['poisoned_activations'] += out['cnt'].get('clocks', 0)
            cnt['designs_with_temporaries'] += 1
            sig = digest('dyn', case['seed'])
        pr = out['events'].get('poison-read', 0)
        if pr:
            viol.append(violation('poison-read:generated-design',
                                  f"{pr} reads of temporaries before they were written in the activation "
                                  f"(e.g. variable {out['event_samples'].get('poison-read')}); generator={case['gen']} seed={case['seed']}",
                                  source=out['src'], vhdl=out.get('text')))
        # (trace mismatches of these designs are the business of C01/C03/C04)
    return result(sig=sig, viol=viol, cnt=dict(cnt))


def run_localsig(case):
    """a Signal constructed from a run-time value inside a coroutine: reads in the constructing state may go through the
    compiler's alias variable, reads in later states must not (an alias consumed in another state is a value left over from an
    earlier activation).  Monitors: poison on the alias, and the `maybe_uninitialized` flag must not change behaviour."""
    cnt = Counter()
    viol = []
    _n[0] += 1
    loop, pos, rd, upd = case['loop'], case['pos'], case['rd'], case['upd']
    texts = {}
    srcs = {}
    for flag in ((False, True) if not case['flag'] else (True, False)):
        cname = f"LS{_n[0]}{'F' if flag else 'N'}"
        B = []
        ind = 3
        def emit(x, i=None):
            B.append('    ' * (ind if i is None else i) + x)
        if loop != 'none':
            emit({'while-cond': "while self.a:", 'while-true-break': "while True:", 'while-cond-if': "while self.a | self.b:"}[loop])
            ind = 4
        if pos == 'after-await':
            emit("await self.c")
        if loop == 'while-cond-if':
            emit("if self.b:")
            emit("    await self.c")
            emit("    self.o1 <<= self.y")
        emit(f"s = Signal(self.x{', maybe_uninitialized=True' if flag else ''})")
        if rd == 'same-state':
            emit("self.o0 <<= s")
        emit("await self.b")
        if upd:
            emit("s <<= s + 1")
            emit("await self.c")
        if rd in ('after-await', 'after-two-awaits'):
            if rd == 'after-two-awaits':
                emit("await self.a")
            emit("self.o0 <<= s")
        if loop == 'while-true-break':
            emit("if self.c:")
            emit("    break")
        if loop != 'none':
            ind = 3
        if rd == 'after-loop':
            emit("self.o1 <<= s")
        emit("self.o1 <<= self.o1 + 1" if rd != 'after-loop' else "await self.c")
        L = [HEADER, f"class {cname}(Entity):", "    clk = Port.input(Bit)"]
        for nme in 'abc':
            L.append(f"    {nme} = Port.input(Bit)")
        L += ["    x = Port.input(Unsigned[3])", "    y = Port.input(Unsigned[3])",
              "    o0 = Port.output(Unsigned[3], default=0)", "    o1 = Port.output(Unsigned[3], default=0)",
              "    def architecture(self):", "        @std.sequential(std.Clock(self.clk))", "        async def proc():"] + B
        src = '\n'.join(L) + '\n'
        srcs[flag] = src
        mod = load_source(src, 'c08l')
        try:
            try:
                texts[flag] = compile_top(getattr(mod, cname))
            except Rejected as r:
                cnt['localsig_rejected' + ('_flag' if flag else '_noflag')] += 1
                cnt['localsig_rejected:' + r.msg[:40].replace('\n', ' ')] += 1
        finally:
            unload(mod)
    if not texts:
        return result(cnt=dict(cnt))
    sims = {}
    try:
        for flag, comp in texts.items():
            sims[flag] = comp.sim(init={'clk': 0, 'a': 0, 'b': 0, 'c': 0, 'x': 0, 'y': 0})
            sims[flag].events.clear()
    except Unsupported:
        return result(cnt={'vsim_unsupported': 1}, inconclusive='vsim unsupported')
    rnd = random.Random(11)
    nclk = 0
    diff = None
    for t in range(600):
        a, b, c = (rnd.random() < 0.7), (rnd.random() < 0.6), (rnd.random() < 0.6)
        x, y = rnd.randrange(8), rnd.randrange(8)
        for sim in sims.values():
            sim.set('a', int(a)); sim.set('b', int(b)); sim.set('c', int(c)); sim.set('x', x); sim.set('y', y)
            sim.clock()
        nclk += 1
        if len(sims) == 2 and diff is None:
            for o in ('o0', 'o1'):
                if sims[True].get(o) != sims[False].get(o):
                    diff = (t, o, sims[False].get(o), sims[True].get(o))
    cnt['poisoned_activations'] += nclk
    cnt['local_signal_designs'] += 1
    cls = f"{loop}:{pos}:{rd}{':updated' if upd else ''}"
    for flag, sim in sims.items():
        pr = sim.events.get('poison-read', 0)
        if pr:
            viol.append(violation(f"poison-read:local-signal-alias:{'maybe_uninitialized' if flag else 'checked'}",
                                  f"{pr} reads of a compiler-generated variable that was not written in the same activation "
                                  f"(e.g. {sim.event_samples.get('poison-read')}); shape {cls}", source=srcs[flag], vhdl=texts[flag].text))
            break
    if diff and not viol:
        viol.append(violation('maybe_uninitialized-changes-behaviour', f"shape {cls}: output {diff[1]} at clock {diff[0]} is {diff[2]} without and {diff[3]} with "
                              f"maybe_uninitialized=True (the flag only disables a check)", source=srcs[True], vhdl=texts[True].text))
    return result(sig=digest('localsig', case) if not viol else None, viol=viol, cnt=dict(cnt))


def run_case(case):
    if case['k'] == 'localsig':
        return run_localsig(case)
    if case['k'] == 'place':
        return run_place(case)
    return run_dyn(case)
