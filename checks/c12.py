"""C12  Instantiating an entity is equivalent to inlining it; the interface is exactly the declared ports.

One generated description is rendered twice (vlib/hiergen.py): TopH instantiates sub-entities, TopF calls the
very same body functions inline.  Both are compiled and executed by vsim under identical input sequences;
an online monitor compares every top-level output after every clock edge (and at time 0).  The parsed text
of the hierarchical design is checked against the generator's tables: entity interface == declared ports
(names, directions, types, order), one entity per template, sub-entity before user, every port map wires
each formal to the actual that was written for it (keyword order at the call site is shuffled)."""
import random
from collections import Counter
from vlib import hiergen
from vlib import vparse
from vlib.harness import result, digest, violation, load_source, unload, compile_top, Rejected
from vlib.vsim import Meta, Unsupported, fmt

PID = 'C12'
RULE = ("instantiation trees: depth <= 3, 1-4 construction steps per node, repeated templates, actuals = whole ports/signals, "
        "slices, elements, .unsigned/.bitvector views, instances created inside a concurrent context, keyword order shuffled; "
        "+ sub-cases: inout associations with typed views (text), elements of Array signals (with views) as input / output actuals, "
        "a wrapper derived from the entity it instantiates forwarding its inherited ports; "
        "leaf logic = random concurrent / clocked expressions; 60 clocks of random inputs + 8 directed patterns per design "
        "(thorough: 200 clocks).  distinct_nontrivial = designs with >= 1 instance whose outputs took >= 4 distinct defined values.")
ASSUMPTIONS = ["vsim executes the emitted VHDL faithfully", "the flat rendering calls the same body functions with the same "
               "objects, so it is the 'logic placed inline' of the property"]
REQUIRE = {'quick': {'derivedwrap_designs': 12, 'arrelem_designs': 20, 'instances': 300, 'output_comparisons': 20000, 'portmaps_checked': 300, 'interfaces_checked': 300},
           'thorough': {'derivedwrap_designs': 12, 'arrelem_designs': 100, 'instances': 8000, 'output_comparisons': 1000000, 'portmaps_checked': 8000, 'interfaces_checked': 8000}}


def gen_cases(tier, seed):
    n = 160 if tier == 'quick' else 4000
    cases = [{'k': 'inout', 'f': f, 'root': root, 'view': view, 'slc': slc} for f in ('u', 's', 'bv') for root in ('u', 's', 'bv')
             for view in ('unsigned', 'signed', 'bitvector', None) for slc in (False, True)]
    # elements of Array signals (and typed views of them) as actuals of input and output formals
    cases += [{'k': 'arrelem', 'e_in': ei, 'v_in': vi, 'e_out': eo, 'v_out': vo, 'ix': (len(cases) + k) % 2}
              for k, (ei, vi, eo, vo) in enumerate((ei, vi, eo, vo) for ei in ('u', 's', 'bv') for vi in ('unsigned', 'signed', 'bitvector', None)
                                                   for eo in ('u', 's', 'bv') for vo in ('unsigned', 'signed', 'bitvector', None))
              if tier == 'thorough' or (k + seed) % 4 == 0]
    # a wrapper entity that is derived from the entity it instantiates and forwards the inherited ports (formal and actual are
    # the same Port object); the child's output has a default that its own logic reads back
    cases += [{'k': 'derivedwrap', 'ty': ty, 'default': d, 'extra': ex} for ty in ('u', 'bv') for d in (5, 0, 15, 9) for ex in (False, True)]
    for i in range(n):
        cases.append({'seed': seed * 100003 + i, 'depth': 1 + i % 3, 'style': 'noviews' if i % 5 == 0 else 'mixed',
                      'clocks': 60 if tier == 'quick' else 200})
    return cases


CONV = {'std_logic_vector', 'unsigned', 'signed', 'std_logic'}


def canon_actual(e):
    """(root, hi, lo) of a port-map actual; conversions are stripped"""
    while e[0] == 'call' and e[1][0] == 'id' and e[1][1].lower() in CONV and len(e[2]) == 1:
        e = e[2][0]
    if e[0] == 'paren':
        return canon_actual(e[1])
    if e[0] == 'id':
        return (e[1].lower(), None, None)
    if e[0] == 'slice' and e[1][0] == 'id':
        return (e[1][1].lower(), lit(e[2]), lit(e[4]))
    if e[0] == 'call' and e[1][0] == 'id' and len(e[2]) == 1:
        return (e[1][1].lower(), lit(e[2][0]), lit(e[2][0]))
    return ('?', repr(e), None)


def lit(e):
    if e[0] in ('int', 'num'):
        return int(e[1])
    return repr(e)


def vh_type(st):
    """parsed subtype -> comparable tuple"""
    if len(st) == 1:
        return (st[0].lower(),)
    return (st[0].lower(), lit(st[1]), lit(st[3]))


def structural(g, text, cnt):
    """returns list of (mechanism, detail)"""
    out = []
    try:
        units = vparse.parse(text)
    except vparse.VhdlSyntaxError as e:
        return [('does-not-parse', str(e))]
    if isinstance(units, tuple):
        units = units[0]
    ents = [u for u in units if u[0] == 'entity']
    archs = [u for u in units if u[0] == 'arch']
    pos = {id(u): i for i, u in enumerate(units)}
    by_name = {}
    for e in ents:
        by_name.setdefault(e[1].lower(), []).append(e)
    used = {nd.name: nd for nd in g.nodes}
    reach = set()

    def all_insts(nd):
        # a derived entity class runs the body of its base class: it contains the base's instances as well
        return (all_insts(nd.base) if getattr(nd, 'base', None) is not None else []) + nd.insts

    def walk(nd):
        if nd.name in reach:
            return
        reach.add(nd.name)
        for i in all_insts(nd):
            walk(i['child'])
    walk(used['Top'])
    for name in reach:
        nd = used[name]
        ename = 'toph' if name == 'Top' else name.lower()
        es = by_name.get(ename, [])
        if len(es) != 1:
            out.append(('template-count', f"entity {ename} is emitted {len(es)} times (expected once, shared by its instances)"))
            if not es:
                continue
        e = es[0]
        cnt['interfaces_checked'] += 1
        got = [(p[0], p[1], vh_type(p[2])) for p in e[3]]
        want = [(n, d, tuple(x if not isinstance(x, str) else x for x in hiergen.VH[t])) for n, d, t, _ in nd.ports]
        if got != want:
            out.append(('interface-differs', f"entity {e[1]}: emitted ports {got} but declared {want}"))
        # port maps of this node's instances
        ar = [a for a in archs if a[2].lower() == ename]
        if len(ar) != 1:
            out.append(('architecture-count', f"{len(ar)} architectures for entity {ename}"))
            continue
        insts = [s for s in ar[0][4] if s[0] == 'inst']
        outs = {n.lower() for n, d, t, _ in nd.ports if d == 'out'}
        expected = Counter()
        for i in all_insts(nd):
            m = []
            for f, (txt, root, sel) in i['actuals'].items():
                rootn = root.lower()
                if rootn in outs:
                    rootn = 'buffer_' + rootn
                m.append((f.lower(), rootn, sel))
            expected[(i['child'].name.lower(), frozenset(m))] += 1
        emitted = Counter()
        for s in insts:
            m = []
            pmap = [((f[2] if f.__class__ is tuple else f), a) for f, a in s[6]]
            for f, a in pmap:
                r, hi, lo = canon_actual(a)
                m.append((f.lower(), r, None if hi is None else (hi, lo)))
            emitted[(s[3].lower(), frozenset(m))] += 1
            cnt['portmaps_checked'] += 1
            # sub-entity before user
            child_ents = by_name.get(s[3].lower(), [])
            if child_ents and pos[id(child_ents[0])] > pos[id(ar[0])]:
                out.append(('sub-entity-after-user', f"entity {s[3]} is emitted after architecture of {ename} which instantiates it"))
            # formals in declaration order, each exactly once
            child = used.get(s[3].upper()) or used.get(s[3])
            if child is not None:
                if sorted(f.lower() for f, _ in pmap) != sorted(p[0].lower() for p in child.ports):
                    out.append(('portmap-formals', f"instance {s[1]} of {s[3]} associates {[f for f, _ in pmap]}, declared ports {[p[0] for p in child.ports]}"))
        if emitted != expected:
            only_e = emitted - expected
            only_x = expected - emitted
            out.append(('portmap-wiring', f"in {ename}: emitted instance(s) {sorted((k[0], sorted(k[1], key=str)) for k in only_e)} "
                                          f"but the source wires {sorted((k[0], sorted(k[1], key=str)) for k in only_x)}"))
    extra = set(by_name) - {('toph' if n == 'Top' else n.lower()) for n in reach}
    if extra:
        out.append(('extra-entities', f"entities {sorted(extra)} emitted although not reachable from the top"))
    return out


def stimuli(top, rnd, n):
    ins = [(nm, t) for nm, d, t, _ in top.ports if d == 'in' and nm != 'clk']
    W = {'bit': 1, 'bv4': 4, 'bv8': 8, 'u4': 4}
    seq = []
    for k in range(8):
        seq.append({nm: [0, (1 << W[t]) - 1, 0x55 & ((1 << W[t]) - 1), 0xAA & ((1 << W[t]) - 1)][(k + i) % 4] for i, (nm, t) in enumerate(ins)})
    for _ in range(n):
        seq.append({nm: rnd.randrange(1 << W[t]) for nm, t in ins})
    return ins, seq


KT = {'u': 'Unsigned', 's': 'Signed', 'bv': 'BitVector'}
KV = {'u': 'unsigned', 's': 'signed', 'bv': 'std_logic_vector'}
_io = [0]


def run_inout(case):
    """inout ports are wired in both directions: with a typed view as actual the association needs the conversion on the
    formal side (value leaving the instance) and on the actual side (value entering it).  vsim does not execute inout
    associations, so this sub-case checks the emitted association text against the declared types."""
    cnt = Counter()
    f, root, view, slc = case['f'], case['root'], case['view'], case['slc']
    # the CoHDL type of the actual must equal the formal type
    vk = {'unsigned': 'u', 'signed': 's', 'bitvector': 'bv', None: ('bv' if slc else root)}[view]
    if vk != f:
        return result(cnt={'inout_not_applicable': 1})
    _io[0] += 1
    cname = f"IO{_io[0]}"
    w = 8 if slc else 4
    actual = "self.io" + ("[7:4]" if slc else "") + (f".{view}" if view else "")
    src = hiergen.HEADER + f"""
class Leaf{_io[0]}(Entity):
    sel = Port.input(Bit)
    pad = Port.inout({KT[f]}[4])
    q = Port.output(BitVector[4])
    def architecture(self):
        @std.concurrent
        def logic():
            self.q <<= self.pad.bitvector if self.sel else ~self.pad.bitvector

class {cname}(Entity):
    sel = Port.input(Bit)
    io = Port.inout({KT[root]}[{w}])
    q = Port.output(BitVector[4])
    def architecture(self):
        Leaf{_io[0]}(sel=self.sel, pad={actual}, q=self.q)
"""
    mod = load_source(src, 'c12io')
    try:
        try:
            comp = compile_top(getattr(mod, cname))
        except Rejected as r:
            cnt['inout_rejected'] += 1
            cnt['inout_rejected:' + r.msg[:50].replace('\n', ' ')] += 1
            return result(cnt=dict(cnt))
    finally:
        unload(mod)
    units = vparse.parse(comp.text)[0]
    viol = []
    found = False
    for u in units:
        if u[0] != 'arch':
            continue
        for st in u[4]:
            if st[0] != 'inst':
                continue
            for fm, a in st[6]:
                name = fm[2] if fm.__class__ is tuple else fm
                if name.lower() != 'pad':
                    continue
                found = True
                fconv = fm[1].lower() if fm.__class__ is tuple else None
                aconv = a[1][1].lower() if (a[0] == 'call' and a[1][0] == 'id' and a[1][1].lower() in CONV) else None
                # VHDL type of the actual name: the root's type (a slice keeps it)
                want_f, want_a = (KV[root], KV[f]) if KV[root] != KV[f] else (None, None)
                cnt['inout_associations_checked'] += 1
                if (fconv, aconv) != (want_f, want_a):
                    viol.append(violation('inout-association-conversion',
                                          f"inout formal pad : {KV[f]} associated with {actual} (VHDL type {KV[root]}): emitted "
                                          f"`{(fconv + '(pad)') if fconv else 'pad'} => {(aconv + '(..)') if aconv else '<name>'}`, needed "
                                          f"`{(want_f + '(pad)') if want_f else 'pad'} => {(want_a + '(..)') if want_a else '<name>'}`", source=src, vhdl=comp.text))
    if not found:
        return result(cnt=dict(cnt), inconclusive="port map association of the inout port not found")
    return result(sig=digest('inout', case) if not viol else None, viol=viol, cnt=dict(cnt))


def run_arrelem(case):
    """an element of an Array signal (optionally through a typed view) as actual of an input and of an output formal;
    hierarchical against inlined rendering, every input value, plus the conformance checker on the port map"""
    cnt = Counter()
    VK = {'unsigned': 'u', 'signed': 's', 'bitvector': 'bv'}
    fi = VK.get(case['v_in'], case['e_in'])        # CoHDL type of the actuals = type of the formals
    fo = VK.get(case['v_out'], case['e_out'])
    _io[0] += 1
    k = _io[0]
    ix = case['ix']
    a_in = f"src[{ix}]" + (f".{case['v_in']}" if case['v_in'] else "")
    a_out = f"dst[{1 - ix}]" + (f".{case['v_out']}" if case['v_out'] else "")
    body = "y.next = (a.bitvector.unsigned + 3).bitvector" + {'u': '.unsigned', 's': '.signed', 'bv': ''}[fo]
    src = hiergen.HEADER + "from cohdl import Array\n" + f"""
def leaf_body{k}(a, y):
    @std.concurrent
    def logic():
        {body}

class Leaf{k}(Entity):
    a = Port.input({KT[fi]}[4])
    y = Port.output({KT[fo]}[4])
    def architecture(self):
        leaf_body{k}(self.a, self.y)

def top_body{k}(M, d, q):
    src = Signal[Array[{KT[case['e_in']]}[4], 2]](name='src')
    dst = Signal[Array[{KT[case['e_out']]}[4], 2]](name='dst')
    @std.concurrent
    def drv():
        src[{ix}].next = d{ {'u': '.unsigned', 's': '.signed', 'bv': ''}[case['e_in']] }
    if M == 'h':
        Leaf{k}(a={a_in}, y={a_out})
    else:
        leaf_body{k}({a_in}, {a_out})
    @std.concurrent
    def out():
        q.next = dst[{1 - ix}].bitvector

class AH{k}(Entity):
    d = Port.input(BitVector[4])
    q = Port.output(BitVector[4])
    def architecture(self):
        top_body{k}('h', self.d, self.q)

class AF{k}(Entity):
    d = Port.input(BitVector[4])
    q = Port.output(BitVector[4])
    def architecture(self):
        top_body{k}('f', self.d, self.q)
"""
    mod = load_source(src, 'c12ae')
    comps, rej = {}, {}
    try:
        for T in (f'AH{k}', f'AF{k}'):
            try:
                comps[T[:2]] = compile_top(getattr(mod, T))
            except Rejected as r:
                rej[T[:2]] = r
    finally:
        unload(mod)
    if rej:
        if len(rej) == 2:
            cnt['arrelem_rejected_both'] += 1
            cnt['arrelem_rejected_both:' + rej['AH'].msg[:50].replace('\n', ' ')] += 1
            return result(cnt=dict(cnt))
        T = next(iter(rej))
        return result(viol=[violation('accepted-only-one-rendering', f"array element actual {a_in} / {a_out}: the {'hierarchical' if T == 'AH' else 'flat'} rendering "
                                      f"is rejected ({rej[T].etype}: {rej[T].msg[:200]}) while the other one compiles", source=src)], cnt=dict(cnt))
    viol = []
    try:
        sh = comps['AH'].sim(init={'d': 0})
        sf = comps['AF'].sim(init={'d': 0})
    except Unsupported as u:
        return result(cnt={'vsim_unsupported': 1}, inconclusive=f"vsim unsupported: {u}")
    bad = [i for i in sh.issues if i[0] not in ('unused',) and i[0] not in {j[0] for j in sf.issues}]
    if bad:
        viol.append(violation('vhdl-issue-only-in-hierarchical:' + bad[0][0], f"array element actual {a_in} / {a_out}: the conformance checker reports "
                              f"{bad[:3]} for the hierarchical design", source=src, vhdl=comps['AH'].text))
    for v in range(16):
        sh.set('d', v); sf.set('d', v)
        sh.settle(); sf.settle()
        a, b = sh.get('q'), sf.get('q')
        cnt['output_comparisons'] += 1
        cnt['arrelem_comparisons'] += 1
        if fmt(a) != fmt(b) or a != (v + 3) % 16:
            viol.append(violation('hier-flat-differ', f"array element actual {a_in} / {a_out}, d={v}: hierarchical {fmt(a)}, flat {fmt(b)}, "
                                  f"expected {(v + 3) % 16}", source=src, vhdl=comps['AH'].text, vhdl_flat=comps['AF'].text))
            break
    cnt['instances'] += 1
    cnt['arrelem_designs'] += 1
    return result(sig=digest('arrelem', case) if not viol else None, viol=viol, cnt=dict(cnt))


def run_derivedwrap(case):
    cnt = Counter()
    _io[0] += 1
    k = _io[0]
    ty, d, ex = case['ty'], case['default'], case['extra']
    T = 'Unsigned[4]' if ty == 'u' else 'BitVector[4]'
    dflt = str(d) if ty == 'u' else f"'{d:04b}'"
    upd = "y.next = y + a" if ty == 'u' else "y.next = (y.unsigned + a.unsigned).bitvector"
    xport = "    z = Port.output(Bit)\n" if ex else ""
    xh = "\n        @std.concurrent\n        def zl():\n            self.z <<= self.a[0]" if ex else ""
    src = hiergen.HEADER + f"""
def base_body{k}(clk, a, y):
    @std.sequential(std.Clock(clk))
    def acc():
        {upd}

class Base{k}(Entity):
    clk = Port.input(Bit)
    a = Port.input({T})
    y = Port.output({T}, default={dflt})
    def architecture(self):
        base_body{k}(self.clk, self.a, self.y)

class WH{k}(Base{k}):
{xport}    def architecture(self):
        Base{k}(clk=self.clk, a=self.a, y=self.y){xh}

class WF{k}(Base{k}):
{xport}    def architecture(self):
        base_body{k}(self.clk, self.a, self.y){xh}
"""
    mod = load_source(src, 'c12dw')
    comps, rej = {}, {}
    try:
        for T_ in (f'WH{k}', f'WF{k}'):
            try:
                comps[T_[:2]] = compile_top(getattr(mod, T_))
            except Rejected as r:
                rej[T_[:2]] = r
    finally:
        unload(mod)
    if rej:
        if len(rej) == 2:
            cnt['derivedwrap_rejected_both'] += 1
            cnt['derivedwrap_rejected_both:' + rej['WH'].msg[:50].replace('\n', ' ')] += 1
            return result(cnt=dict(cnt))
        T_ = next(iter(rej))
        return result(viol=[violation('accepted-only-one-rendering', f"derived wrapper: the {'hierarchical' if T_ == 'WH' else 'flat'} rendering is rejected "
                                      f"({rej[T_].etype}: {rej[T_].msg[:200]}) while the other one compiles", source=src)], cnt=dict(cnt))
    try:
        sh = comps['WH'].sim(init={'clk': 0, 'a': 0})
        sf = comps['WF'].sim(init={'clk': 0, 'a': 0})
    except Unsupported as u:
        return result(cnt={'vsim_unsupported': 1}, inconclusive=f"vsim unsupported: {u}")
    viol = []
    rnd = random.Random(d * 7 + ex)
    seq = [0, 1, 3, 0, 15] + [rnd.randrange(16) for _ in range(20)]
    exp = d
    for i, a in enumerate(seq):
        va, vb = sh.get('y'), sf.get('y')
        cnt['output_comparisons'] += 1
        if fmt(va) != fmt(vb) or va != exp:
            viol.append(violation('hier-flat-differ', f"derived wrapper forwarding its inherited output (default {d}): before clock {i} hierarchical y = {fmt(va)}, "
                                  f"flat y = {fmt(vb)}, expected {exp}", source=src, vhdl=comps['WH'].text, vhdl_flat=comps['WF'].text))
            break
        for s_ in (sh, sf):
            s_.set('a', a); s_.settle(); s_.clock()
        exp = (exp + a) % 16
    cnt['instances'] += 1
    cnt['derivedwrap_designs'] += 1
    return result(sig=digest('derivedwrap', case) if not viol else None, viol=viol, cnt=dict(cnt))


def run_case(case):
    if case.get('k') == 'inout':
        return run_inout(case)
    if case.get('k') == 'derivedwrap':
        return run_derivedwrap(case)
    if case.get('k') == 'arrelem':
        return run_arrelem(case)
    cnt = Counter()
    rnd = random.Random(case['seed'])
    g, top = hiergen.generate(case['seed'], max_depth=case['depth'], style=case['style'])
    src = g.render()
    mod = load_source(src, 'c12')
    comps = {}
    rej = {}
    try:
        for T in ('TopH', 'TopF'):
            try:
                comps[T] = compile_top(getattr(mod, T))
            except Rejected as r:
                rej[T] = r
    finally:
        unload(mod)
    ninst = sum(len(n.insts) for n in g.nodes)
    cnt['derived_entity_classes'] += sum(1 for n in g.nodes if getattr(n, 'base', None) is not None)
    if rej:
        if len(rej) == 2:
            cnt['rejected_both'] += 1
            cnt['rejected_both:' + rej['TopH'].msg[:50].replace('\n', ' ')] += 1
            return result(cnt=dict(cnt))
        T = next(iter(rej))
        if rej[T].etype == 'CompileTimeout':
            return result(cnt={'compile_timeout': 1})
        return result(viol=[violation('accepted-only-one-rendering', f"{T} is rejected ({rej[T].etype}: {rej[T].msg[:200]}) while the "
                                      f"{'flat' if T == 'TopH' else 'hierarchical'} rendering of the same logic compiles", source=src)], cnt=dict(cnt))
    viol = []
    seen = set()

    def report(mech, det, **kw):
        if mech not in seen:
            seen.add(mech)
            viol.append(violation(mech, det, source=src, **kw))
    for mech, det in structural(g, comps['TopH'].text, cnt):
        report(mech, det, vhdl=comps['TopH'].text)
    try:
        init = {nm: 0 for nm, d, t, _ in top.ports if d == 'in'}
        sh = comps['TopH'].sim(init=init)
        sf = comps['TopF'].sim(init=init)
    except Unsupported as u:
        return result(cnt={'vsim_unsupported': 1}, viol=viol, inconclusive=f"vsim unsupported: {u}")
    for name, s in (('hierarchical', sh), ('flat', sf)):
        bad = [i for i in s.issues if i[0] not in ('unused',)]
        if bad and name == 'hierarchical':
            fbad = {i[0] for i in sf.issues}
            new = [i for i in bad if i[0] not in fbad]
            if new:
                report('vhdl-issue-only-in-hierarchical:' + new[0][0], f"the conformance checker reports {new[:3]} for the hierarchical "
                       f"design but not for the flat one", vhdl=comps['TopH'].text)
    outs = [nm for nm, d, t, _ in top.ports if d == 'out']
    ins, seq = stimuli(top, rnd, case['clocks'])
    values = set()

    def compare(when):
        for o in outs:
            a, b = sh.get(o), sf.get(o)
            cnt['output_comparisons'] += 1
            fa, fb = fmt(a), fmt(b)
            if fa != fb:
                report('hier-flat-differ', f"output {o} {when}: hierarchical {fa}, flat {fb}", vhdl=comps['TopH'].text, vhdl_flat=comps['TopF'].text)
                return False
            if a.__class__ is int:
                values.add((o, a))
        return True
    ok = compare("at time 0")
    if ok:
        for k, st in enumerate(seq):
            for nm, v in st.items():
                sh.set(nm, v); sf.set(nm, v)
            sh.settle(); sf.settle()
            if not compare(f"after inputs of step {k} {st}"):
                break
            sh.clock(); sf.clock()
            if not compare(f"after clock {k} (inputs {st})"):
                break
    for name, s in (('hierarchical', sh), ('flat', sf)):
        evs = [e for e in s.events if e[0] in ('poison-read',)]
        if evs:
            cnt[f'poison_events_{name}'] += len(evs)
    cnt['instances'] += ninst
    cnt['designs_compared'] += 1
    cnt['inline_instances'] += sum(1 for n in g.nodes for i in n.insts if i['inline'])
    cnt['shuffled_keyword_order'] += sum(1 for n in g.nodes for i in n.insts if i['order'] != [p[0] for p in i['child'].ports])
    cnt['repeated_templates'] += sum(1 for c, k in Counter(i['child'].name for n in g.nodes for i in n.insts).items() if k > 1)
    nontrivial = ninst >= 1 and len(values) >= 4
    sample = {'seed': case['seed'], 'nodes': len(g.nodes), 'instances': ninst, 'distinct_output_values': len(values)} if case['seed'] % 16 == 0 else None
    return result(sig=digest(src) if nontrivial and not viol else None, viol=viol, cnt=dict(cnt), sample=sample)
