"""C02  Operators and expressions compute their documented value at run time.

Oracle: vlib.mv (independent arithmetic from the property statement).  Every generated expression
drives output ports from a concurrent and from a clocked context of a compiled entity; vsim executes
the emitted VHDL for every operand valuation (exhaustive when the inputs have <= 12 bits)."""
import random
from collections import Counter
from vlib import exprgen as eg
from vlib import exprdesign as ed
from vlib.harness import result, digest

PID = 'C02'
RULE = ("cases: (a) every ordered operand-type pair over Bit/BitVector/Unsigned/Signed widths 1..Wmax x every "
        "binary/compare operator incl. Python-int operands on either side; (b) per operand type every unary form "
        "(views, resize, const/run-time index, slices, msb/lsb, ~, -, abs, not, bool, const shifts); (c) random trees "
        "depth 2-3 incl. if-expressions, and/or, chained comparisons, select_with, any/all.  Each expression is placed "
        "in a concurrent and in a clocked context and simulated for all operand valuations (<=12 input bits) or 256 "
        "sampled ones.  distinct_nontrivial = distinct (operator signature, operand types) of expressions that were "
        "compiled, simulated and compared on >=1 non-skipped valuation.")
ASSUMPTIONS = ["vsim executes the emitted VHDL faithfully (numeric_std semantics per DESIGN.md appendix C)",
               "MV encodes the documented semantics; tagged corners (non-representable int operands, division by zero, "
               "-min, out-of-range run-time index) are skipped, not checked"]
REQUIRE = {'quick': {'designs_accepted': 50, 'comparisons': 20000, 'exhaustive_designs': 30},
           'thorough': {'designs_accepted': 300, 'comparisons': 200000, 'exhaustive_designs': 100}}

BINOPS = ['+', '-', '*', '//', '%', 'tdiv', 'rem', '<<', '>>', '&', '|', '^', '@']
CMPOPS = ['==', '!=', '<', '<=', '>', '>=']


def types_upto(wmax):
    ts = [('bit', None)]
    for k in ('bv', 'u', 's'):
        for w in range(1, wmax + 1):
            ts.append((k, w))
    return ts


def gen_cases(tier, seed):
    wmax = 3 if tier == 'quick' else 5
    ts = types_upto(wmax)
    cases = []
    for ta in ts:
        for tb in ts:
            cases.append({'k': 'pair', 'ta': list(ta), 'tb': list(tb), 'seed': seed})
    for t in types_upto(wmax + 1) + ([] if tier == 'quick' else [('u', 8), ('s', 8), ('u', 13), ('s', 13), ('bv', 16)]):
        cases.append({'k': 'unary', 't': list(t), 'seed': seed})
    nrand = 96 if tier == 'quick' else 1200
    for i in range(nrand):
        cases.append({'k': 'rand', 'seed': seed * 100003 + i, 'wmax': wmax + (0 if tier == 'quick' else 2)})
    if tier == 'thorough':
        for ta, tb in [(('u', 8), ('u', 8)), (('s', 8), ('s', 8)), (('u', 13), ('u', 5)), (('s', 5), ('s', 13)),
                       (('u', 32), ('u', 32)), (('s', 32), ('s', 32)), (('u', 16), ('u', 3)), (('s', 7), ('s', 9))]:
            cases.append({'k': 'pair', 'ta': list(ta), 'tb': list(tb), 'seed': seed})
    return cases


def int_operands(t):
    k, w = t
    if k == 'u':
        return sorted({0, 1, 2, (1 << w) - 1, (1 << w) >> 1})
    if k == 's':
        return sorted({0, 1, -1, (1 << (w - 1)) - 1, -(1 << (w - 1))})
    return []


def pair_exprs(ta, tb):
    a = ('in', 'a')
    b = ('in', 'b')
    out = []
    for op in BINOPS:
        out.append(('bin', op, a, b))
    for op in CMPOPS:
        out.append(('cmp', op, a, b))
    return out


def lit_exprs(ta, tb, seed_rnd):
    """one operand is a typed constant vector, the other a run-time input (both orders): reflected operators and the
    constant-operand paths of the operator implementations"""
    a = ('in', 'a')
    b = ('in', 'b')
    out = []
    # (every pair case is created with the same seed: derive the constants from the operand types as well, otherwise all
    #  cases would draw the same - possibly uninformative - constant for an operator)
    rnd = random.Random(f"{seed_rnd.random()}:{ta}:{tb}")

    def lit(t):
        k, w = t
        if k == 'bit':
            return ('lit', 'bit', None, rnd.randrange(2))
        return ('lit', k, w, rnd.choice([0, 1, (1 << w) - 1, rnd.randrange(1 << w)]))
    for op in BINOPS:
        out.append(('bin', op, lit(ta), b))
        out.append(('bin', op, a, lit(tb)))
    for op in CMPOPS:
        out.append(('cmp', op, lit(ta), b))
        out.append(('cmp', op, a, lit(tb)))
    return out


def int_exprs(ta):
    a = ('in', 'a')
    out = []
    for i in int_operands(ta):
        for op in ['+', '-', '*', '%', 'tdiv', 'rem', '<<', '>>']:
            out.append(('bin', op, a, ('int', i)))
            if op not in ('<<', '>>'):
                out.append(('bin', op, ('int', i), a))
        for op in CMPOPS:
            out.append(('cmp', op, a, ('int', i)))
            out.append(('cmp', op, ('int', i), a))
    return out


def unary_exprs(t):
    k, w = t
    a = ('in', 'a')
    out = []
    if k == 'bit':
        return [('un', '~', a), ('un', 'not', a), ('un', 'bool', a), ('bin', '@', a, a)]
    for wh in ('unsigned', 'signed', 'bitvector'):
        out.append(('view', wh, a))
    out += [('un', '~', a), ('un', 'not', a), ('un', 'bool', a)]
    for nf in ('Null', 'Full'):
        out += [('cmp', '==', a, ('nf', nf)), ('cmp', '!=', a, ('nf', nf))]
    if k in ('u', 's'):
        out.append(('un', 'neg', a))
        for n in (w, w + 1, w + 3):
            out.append(('resize', a, n, 0))
        out.append(('resize', a, w + 3, 1))
        out.append(('resize', a, w + 2, 2))
        for n in sorted({0, 1, w - 1, w, w + 2}):
            if n >= 0:
                out.append(('bin', '<<', a, ('int', n)))
                out.append(('bin', '>>', a, ('int', n)))
    if k == 's':
        out.append(('un', 'abs', a))
    for i in range(w):
        out.append(('idx', a, i))
    for hi in range(w):
        for lo in range(hi + 1):
            if w <= 5 or (hi - lo) in (0, 1, w - 1) or lo == 0 or hi == w - 1:
                out.append(('slice', a, hi, lo))
    out += [('msb', a, None), ('lsb', a, None)]
    if w >= 3:
        # multi-index subscripts: slice parts of >=2 bits, before / after single indices, overlapping, repeated
        out.append(('multi', a, ((w - 1, w - 2), 0)))
        out.append(('multi', a, (0, (w - 1, 1))))
        out.append(('multi', a, ((1, 0), (w - 1, 1))))
        out.append(('multi', a, (w - 1, 0, 1)))
    for n in range(1, w + 1):
        out += [('msb', a, n), ('lsb', a, n)]
    # views then arithmetic, slice of slice
    if w >= 2:
        out.append(('slice', ('slice', a, w - 1, 1), w - 2, 0))
        out.append(('idx', ('slice', a, w - 1, 1), 0))
        out.append(('view', 'unsigned', ('slice', a, w - 1, 1)))
        out.append(('view', 'signed', ('slice', a, w - 1, 0)))
    if w <= 3:
        # select_with on views and slices of the operand (selector typing in with/select and case statements)
        def selw(sel, sw, skind):
            alts = []
            for kk in range(1 << sw):
                key = kk if skind == 'u' else format(kk, f'0{sw}b')
                alts.append((key, ('lit', 'u', 3, (kk * 3 + 1) % 8)))
            return [('selw', sel, alts[:-1], ('lit', 'u', 3, 7)), ('selw', sel, alts, None)]
        out += selw(('view', 'unsigned', a), w, 'u')
        out += selw(('view', 'bitvector', a), w, 'bv')
        if k == 'u':
            out += selw(a, w, 'u')
        if k == 'bv':
            out += selw(a, w, 'bv')
        if w >= 2:
            out += selw(('slice', a, w - 1, 1), w - 1, 'bv')
            out += selw(('view', 'unsigned', ('slice', a, w - 2, 0)), w - 1, 'u')
    if w >= 4:
        # three and four levels of constant slicing with non-zero lower bounds, msb/lsb chains
        l2 = ('slice', ('slice', a, w - 1, 1), w - 2, 1)
        out.append(('slice', l2, w - 3, 1))
        out.append(('idx', l2, w - 3))
        out.append(('idx', ('slice', l2, w - 3, 1), 0))
        out.append(('lsb', ('msb', ('msb', a, w - 1), w - 2), 1))
        out.append(('msb', ('lsb', ('msb', a, w - 1), w - 2), 1))
        out.append(('view', 'unsigned', ('slice', ('view', 'unsigned', ('slice', ('slice', a, w - 1, 1), w - 2, 1)), 1, 0)))
    return out


def idxrt_exprs(t, iw):
    return [('idxrt', ('in', 'a'), ('in', 'b'))]


def rand_tree(rnd, in_types, maxdepth):
    """type-directed bottom-up construction: keep a pool of (expr, type) and combine"""
    pool = [(('in', n), t) for n, t in in_types.items()]
    env0 = None

    def typ(e):
        try:
            return eg.static_type(e, in_types)
        except eg.Reject:
            return None
    for _ in range(40):
        form = rnd.choice(['bin', 'bin', 'cmp', 'un', 'view', 'resize', 'idx', 'slice', 'ifexp', 'boolop', 'chain',
                           'selw', 'anyall', 'intop', 'idxrt', 'lit'])
        x, tx = rnd.choice(pool)
        y, ty = rnd.choice(pool)
        e = None
        if form == 'bin':
            e = ('bin', rnd.choice(BINOPS), x, y)
        elif form == 'cmp':
            e = ('cmp', rnd.choice(CMPOPS), x, y)
        elif form == 'un':
            e = ('un', rnd.choice(['~', 'neg', 'abs', 'not', 'bool']), x)
        elif form == 'view':
            e = ('view', rnd.choice(['unsigned', 'signed', 'bitvector']), x)
        elif form == 'resize' and tx[0] in ('u', 's'):
            z = rnd.choice([0, 0, 1, 2])
            e = ('resize', x, tx[1] + z + rnd.randrange(3), z)
        elif form == 'idx' and tx[1]:
            e = ('idx', x, rnd.randrange(tx[1]))
        elif form == 'slice' and tx[1]:
            hi = rnd.randrange(tx[1])
            e = ('slice', x, hi, rnd.randrange(hi + 1))
        elif form == 'ifexp':
            c, tc = rnd.choice(pool)
            e = ('ifexp', c, x, y)
        elif form == 'boolop':
            e = ('boolop', rnd.choice(['and', 'or']), [x, y] + ([rnd.choice(pool)[0]] if rnd.random() < 0.3 else []))
        elif form == 'chain':
            z, tz = rnd.choice(pool)
            e = ('chain', [rnd.choice(CMPOPS), rnd.choice(CMPOPS)], [x, y, z])
        elif form == 'selw' and tx[0] in ('bv', 'u') and tx[1] and tx[1] <= 3:
            n = 1 << tx[1]
            keys = rnd.sample(range(n), rnd.randint(1, n))
            cands = [p for p in pool if p[1] == ty]
            alts = [(kk, rnd.choice(cands)[0]) for kk in keys]
            full = len(keys) == n
            d = None if (full and rnd.random() < 0.5) else y
            if tx[0] == 'bv':
                alts = [(format(kk, f'0{tx[1]}b'), ee) for kk, ee in alts]
            e = ('selw', x, alts, d)
        elif form == 'anyall':
            xs = [x, y] if rnd.random() < 0.5 else [x]
            if rnd.random() < 0.5:
                # compile-time constants anywhere in the iterable (any: a True decides, all: a False decides -- wherever it stands)
                for _c in range(rnd.randint(1, 3)):
                    xs.insert(rnd.randrange(len(xs) + 1), ('pyb', rnd.random() < 0.5))
            e = (rnd.choice(['any', 'all']), xs)
        elif form == 'intop' and tx[0] in ('u', 's'):
            i = rnd.choice(int_operands(tx))
            if rnd.random() < 0.5:
                e = ('bin', rnd.choice(['+', '-', '*', '%', 'tdiv', 'rem']), x, ('int', i))
            else:
                e = ('bin', rnd.choice(['+', '-', '*', '%', 'tdiv', 'rem']), ('int', i), x)
        elif form == 'idxrt' and ty[0] == 'u' and tx[0] in ('bv', 'u', 's'):
            e = ('idxrt', x, y)
        elif form == 'lit' and tx[0] in ('bv', 'u', 's'):
            e = ('bin', rnd.choice(['+', '&', '|', '^', '-']), x, ('lit', tx[0], tx[1], rnd.randrange(1 << tx[1])))
        if e is None or eg.depth(e) > maxdepth:
            continue
        t = typ(e)
        if t is None or t[0] == 'int':
            continue
        if t[1] is not None and t[1] > 40:
            continue
        pool.append((e, t))
    deep = [p for p in pool if eg.depth(p[0]) >= 2]
    return [p[0] for p in deep]


def selw_eval_key(e):
    return e


def run_case(case):
    rnd = random.Random(case['seed'])
    cnt = Counter()
    viol = []
    sigs = []
    batches = []
    if case['k'] == 'pair':
        ta, tb = tuple(case['ta']), tuple(case['tb'])
        in_types = {'a': ta, 'b': tb}
        exprs = pair_exprs(ta, tb) + lit_exprs(ta, tb, rnd)
        if ta == tb:
            exprs += int_exprs(ta)
        if tb[0] == 'u' and ta[0] != 'bit':
            exprs += idxrt_exprs(ta, tb[1])
        batches.append((in_types, exprs))
    elif case['k'] == 'unary':
        t = tuple(case['t'])
        batches.append(({'a': t}, unary_exprs(t)))
    else:
        wmax = case['wmax']
        kinds = ['bit', 'bv', 'u', 's', 'u', 's']
        in_types = {}
        for n in 'abc':
            k = rnd.choice(kinds)
            in_types[n] = (k, None if k == 'bit' else rnd.randint(1, wmax))
        exprs = rand_tree(rnd, in_types, 3)
        rnd.shuffle(exprs)
        batches.append((in_types, exprs[:12]))
    sample = None
    for in_types, exprs in batches:
        # keep only expressions inside MV's documented domain
        ok = []
        for e in exprs:
            try:
                t = eg.static_type(e, in_types)
            except eg.Reject:
                cnt['outside_documented_domain'] += 1
                continue
            if t is None:
                cnt['always_skipped'] += 1
                continue
            ok.append(e)
        for i in range(0, len(ok), 16):
            chunk = ok[i:i + 16]
            r = ed.run_batch(in_types, chunk, rnd, flag_reject=(case['k'] != 'rand'))
            cnt.update(r['cnt'])
            viol.extend(r['viol'])
            if not r['viol']:
                for e in chunk:
                    sigs.append(digest(sorted(eg.ops_of(e)), sorted(map(repr, in_types.items()))))
            if sample is None and chunk:
                sample = {'inputs': {n: eg.tsrc(t) for n, t in in_types.items()}, 'expressions': [eg.render(e) for e in chunk[:4]]}
    return result(sig=sigs or None, viol=viol, cnt=dict(cnt), sample=sample, evals=max(1, cnt.get('exprs_checked', 0)))
