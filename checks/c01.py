"""C01  Coroutine-to-state-machine translation is clock-accurate.

Generated async process bodies (awaits on conditions, await true, while loops with break / continue,
branches containing awaits, awaited sub-coroutines with parameters, early return and return values,
marker statements `acc @= acc + K; mk <<= acc` that make a skipped or repeated statement visible) are
printed as CoHDL source and as a Python generator in which every clock boundary required by the
property statement is an explicit `yield` (DESIGN.md appendix E).  CPython runs the generator, vsim
the emitted state machine; all ports are compared after every clock of a bounded breadth-first
exploration of the joint state space (all input valuations in every reached state) and a random run."""
import random
from collections import Counter
from vlib import progen as pg
from vlib import bodygen as bgm
from vlib.harness import result, digest, violation

PID = 'C01'
RULE = ("seeded random coroutine designs of 3..14 statement groups, nesting <=3, up to 3 sub-coroutines (statement forms: App. E; incl. while-True skeletons with early exits / continue as match case, "
        "match in coroutines, awaited helpers, comments, constant-false loops, record signals); each is explored "
        "breadth first over (vsim state, reference generator position + values) with all input valuations per state "
        "up to an edge budget, then 200/1000 random clocks at input densities 0.15/0.5/0.85.  distinct_nontrivial = "
        "distinct (feature set, statement count, joint states reached) of designs that were accepted, compared "
        "without model error and reached >=3 joint states.")
ASSUMPTIONS = ["vsim executes the emitted VHDL faithfully", "vlib.model implements deferred signal / immediate variable / "
               "push-default semantics as stated in C01; designs on which the model raises (undefined read, conversion "
               "outside the documented classes) are discarded and counted"]
REQUIRE = {'quick': {'accepted': 200, 'compared': 150, 'clocks': 50000},
           'thorough': {'accepted': 3000, 'compared': 2000, 'clocks': 1000000}}


def gen_cases(tier, seed):
    n = 640 if tier == 'quick' else 16000
    return [{'seed': seed * 1000003 + i, 'tier': tier} for i in range(n)]


def make(case):
    rnd = random.Random(case['seed'])
    if 'spec' in case:
        # replay of a recorded violation: the design and the generator state are taken from the replay file, so the
        # replay does not depend on the generator version that produced it
        st = case['rnd_state']
        rnd.setstate((st[0], tuple(st[1]), st[2]))
        return rnd, case['spec'], case['feats']
    size = rnd.choice([3, 4, 6, 8, 10, 14])
    spec, feats = bgm.gen_coro_design(rnd, size=size, depth=rnd.choice([1, 2, 3]), step_cond=rnd.random() < 0.15)
    return rnd, spec, feats


def run_case(case):
    rnd, spec, feats = make(case)
    rnd_state = rnd.getstate()
    quick = case.get('tier', 'quick') == 'quick'
    out = pg.run_design(spec, rnd, explore_budget=120 if quick else 600, random_clocks=200 if quick else 1000,
                        max_depth=12)
    cnt = out['cnt']
    for f in feats:
        cnt['feat:' + f] += 1
    viol = list(out['viol'])
    for v in viol:
        v['cohdl_source'] = out['src']
        v['reference_source'] = out.get('refsrc')
        v['vhdl'] = out.get('text')
        v['replay_case'] = {'spec': spec, 'feats': sorted(feats), 'rnd_state': rnd_state}
    sig = None
    if out['status'] == 'compared':
        cnt['compared'] += 1
        if out['states'] >= 3 and not viol:
            sig = digest(feats, sum(1 for _ in bgm.flat(spec['ctxs'][0]['body'])), out['states'])
    elif out['status'] and out['status'].startswith('model-error'):
        cnt['discarded:' + out['status'][:60]] += 1
    sample = None
    if case['seed'] % 97 == 0:
        sample = {'seed': case['seed'], 'features': feats, 'status': out['status'], 'states': out.get('states'),
                  'cohdl_source': out['src'][-1500:]}
    return result(sig=sig, viol=viol, cnt=dict(cnt), sample=sample)
