"""C20  AXI4-Lite register maps: every transaction answered exactly once, protocol rules, data semantics.

A generated register map (vlib/axigen.py) is compiled and executed by vsim.  A hostile master BFM drives all
five channels with per-clock random valid/ready timing (AW before/after/with W, several writes outstanding,
back-to-back, partial strobes, unmapped addresses, reads racing writes, ready asserted early / withdrawn).
Online monitors per clock:
  protocol   valid never withdrawn, payload stable while waiting, no B/R valid without an accepted request,
             every request answered exactly once (bounded drain), outputs never metavalues
  data       each read value must equal the reference model after some prefix of writes that is consistent
             with the observed handshakes (writes answered before the read request must be included, writes
             whose address+data were not both accepted before the read response must not), with hw_in taken
             from the read window; hardware-visible storage ports must follow the same prefixes monotonically
  notify     PushOnNotify pulses: count within [completed, accepted] at all times and equal at quiescence
  final      full read-back of every mapped and some unmapped words at quiescence must equal the model exactly
"""
import random
from collections import Counter
from vlib import axigen
from vlib.harness import result, digest, violation, load_source, unload, compile_top, Rejected
from vlib.vsim import Meta, Unsupported, fmt

PID = 'C20'
RULE = ("layouts: random placement of MemWord/MemUWord/Word/UWord/SWord/Register(MemField,MemUField,Field,FlagField,PushOnNotify)/"
        "event-counter registers (PushOnNotify + FlagOnNotify, read and write)/Array/nested RegFile (with inner RegFile, Memory, AddrRange or Array)/Memory(4 mask modes, inline, non "
        "power-of-two, unaligned)/RoMemory/custom AddrRange (absolute and relative)/Input/Output in a 512 byte space (35% leave the low addresses unmapped), directly or "
        "behind axi4_light.Interconnect (window in a 1024 byte space, rest answered by the background range); per layout "
        "several master profiles (blocking, pipelined, write-heavy skew, slow readies, random) x 150 transactions (thorough 600) "
        "with per-clock random delays on all five channels.  distinct_nontrivial = (layout, profile) runs with >= 50 answered "
        "transactions and >= 8 distinct addresses.")
ASSUMPTIONS = ["vsim executes the emitted VHDL faithfully", "accesses are word aligned (documented)",
               "hw_clear pulses and Input port changes are applied only at quiescent points"]
REQUIRE = {'quick': {'designs_accepted': 22, 'write_transactions': 3000, 'read_transactions': 3000, 'read_values_checked': 3000, 'export_checks': 20000},
           'thorough': {'designs_accepted': 290, 'write_transactions': 100000, 'read_transactions': 100000, 'read_values_checked': 100000, 'export_checks': 500000}}

PROFILES = {
    # p_aw, p_w, p_b, p_ar, p_r, outstanding, skew
    'blocking': dict(p_aw=0.7, p_w=0.7, p_b=0.7, p_ar=0.7, p_r=0.7, outstanding=1, skew=1),
    'pipelined': dict(p_aw=1.0, p_w=1.0, p_b=1.0, p_ar=1.0, p_r=1.0, outstanding=4, skew=3),
    'aw_first': dict(p_aw=1.0, p_w=0.25, p_b=0.9, p_ar=0.5, p_r=0.5, outstanding=4, skew=3),
    'w_first': dict(p_aw=0.25, p_w=1.0, p_b=0.9, p_ar=0.5, p_r=0.5, outstanding=4, skew=3),
    'slow_ready': dict(p_aw=0.9, p_w=0.9, p_b=0.15, p_ar=0.9, p_r=0.15, outstanding=3, skew=2),
    'random': dict(p_aw=0.5, p_w=0.5, p_b=0.5, p_ar=0.5, p_r=0.5, outstanding=3, skew=2),
}

_n = [0]


def gen_cases(tier, seed):
    n = 24 if tier == 'quick' else 300
    cases = []
    for i in range(n):
        cases.append({'seed': seed * 7919 + i, 'style': 'words' if i % 6 == 5 else ('interconnect' if i % 6 == 2 else 'mixed'), 'txn': 150 if tier == 'quick' else 600,
                      'profiles': list(PROFILES) if tier == 'thorough' else [list(PROFILES)[(i + k) % len(PROFILES)] for k in range(3)]})
    return cases


def iv(x):
    return x if x.__class__ is int else None


class Run:
    def __init__(self, comp, lay, rnd, profile, ntxn, cnt):
        self.comp, self.lay, self.rnd, self.P, self.cnt = comp, lay, rnd, PROFILES[profile], cnt
        self.profile = profile
        self.ntxn = ntxn
        self.viol = None
        self.trace = []

    def fail(self, mech, msg):
        if self.viol is None:
            self.viol = (mech, msg + f" [profile {self.profile}, clock {self.clk}]")

    def run(self):
        lay, rnd, P = self.lay, self.rnd, self.P
        inputs = {f"i_{it.name}": rnd.getrandbits(it.width) for it in lay.items if it.kind == 'input'}
        init = {'axi_clk': 0, 'axi_reset': 0, 'axi_awvalid': 0, 'axi_wvalid': 0, 'axi_bready': 0, 'axi_arvalid': 0, 'axi_rready': 0,
                'axi_awaddr': 0, 'axi_awprot': 0, 'axi_wdata': 0, 'axi_wstrb': 0, 'axi_araddr': 0, 'axi_arprot': 0, 'hw_in': 0, 'hw_clear': 0}
        init.update(inputs)
        sim = self.sim = self.comp.sim(init=init, poison=False)   # the AXI slave latches beats in aliases of `Signal(.., maybe_uninitialized=True)`: process variables that persist by design
        self.clk = 0
        sim.clock('axi_clk', n=2)
        sim.set('axi_reset', 1)          # active low reset released
        sim.settle()
        model = axigen.Model(lay)
        mapped = sorted(model.map)
        unmapped = [a for a in range(0, 1 << lay.master_bits, 4) if a not in model.map]
        hot = rnd.sample(mapped, min(len(mapped), 6))
        self.addresses = set()

        def pick_addr():
            k = rnd.random()
            if k < 0.5:
                return rnd.choice(hot)
            if k < 0.85 or not unmapped:
                return rnd.choice(mapped)
            return rnd.choice(unmapped)

        def pick_strb():
            k = rnd.random()
            return 15 if k < 0.4 else rnd.randrange(16)

        def pick_data():
            k = rnd.random()
            return rnd.getrandbits(32) if k < 0.7 else rnd.choice([0, 0xFFFFFFFF, 0x80000000, 0x00000001, 0xFF00FF00])
        # phases of traffic separated by quiescent hardware events and a full read-back
        phases = 3
        for ph in range(phases):
            n = self.ntxn // phases
            writes = [dict(addr=pick_addr(), data=pick_data(), strb=pick_strb(), aw=None, w=None, b=None) for _ in range(n // 2)]
            reads = [dict(addr=pick_addr(), ar=None, r=None) for _ in range(n - n // 2)]
            self.traffic(model, writes, reads, inputs, hw_changes=True)
            if self.viol:
                return
            # quiescent hardware events
            if lay.flags and rnd.random() < 0.7:
                sim.set('hw_clear', 1)
                self.tick(model, [], [], 0, 0, inputs)
                sim.set('hw_clear', 0)
                self.tick(model, [], [], 0, 0, inputs)
                self.tick(model, [], [], 0, 0, inputs)
                self.tick(model, [], [], 0, 0, inputs)
                model.clear_flags()
            for k in list(inputs):
                w = next(it.width for it in lay.items if f"i_{it.name}" == k)
                inputs[k] = rnd.getrandbits(w)
                sim.set(k, inputs[k])
            # exact read-back with a simple blocking master
            rb = [dict(addr=a, ar=None, r=None) for a in mapped + rnd.sample(unmapped, min(4, len(unmapped)))]
            rnd.shuffle(rb)
            self.traffic(model, [], rb, inputs, hw_changes=False, exact=True)
            if self.viol:
                return

    # ------------------------------------------------------------------ one traffic phase
    def traffic(self, model, writes, reads, inputs, hw_changes, exact=False):
        sim, rnd, P, cnt = self.sim, self.rnd, self.P, self.cnt
        st = dict(aw=0, w=0, b=0, ar=0, r=0)            # next index per channel
        drv = dict(awvalid=0, wvalid=0, arvalid=0, bready=0, rready=0)
        self.base = model.copy()       # state before this phase; prefixes of `writes` are applied on top
        self.prefix_models = [self.base]
        self.applied_min = 0           # exports have shown at least this prefix
        self.hw_hist = {}              # clock -> hw_in value
        self.note_counts = Counter()
        self.prev_out = None
        idle = 0
        budget = 60 * (len(writes) + len(reads)) + 400
        start = self.clk
        drain = False
        while True:
            done = st['b'] == len(writes) and st['r'] == len(reads)
            if done and not drv['awvalid'] and not drv['wvalid'] and not drv['arvalid']:
                break
            if self.clk - start > budget and not drain:
                drain = True            # stop being hostile: all readies high, no new delays
                drain_start = self.clk
            if drain and self.clk - drain_start > 300:
                pend_w = [(i, w) for i, w in enumerate(writes) if w['b'] is None][:3]
                pend_r = [(i, r) for i, r in enumerate(reads) if r['r'] is None][:3]
                self.fail('transaction-not-answered', f"after {budget} clocks of traffic and 300 clocks with all readies high "
                          f"{len(writes) - st['b']} write(s) and {len(reads) - st['r']} read(s) are still unanswered: "
                          f"writes {pend_w} reads {pend_r}; awready={fmt(sim.get('axi_awready'))} wready={fmt(sim.get('axi_wready'))} "
                          f"arready={fmt(sim.get('axi_arready'))} bvalid={fmt(sim.get('axi_bvalid'))} rvalid={fmt(sim.get('axi_rvalid'))}")
                return
            # ---- master decisions for this clock (valid stays until handshake)
            pa = 1.0 if drain else P['p_aw']
            if not drv['awvalid'] and st['aw'] < len(writes) and st['aw'] - st['b'] < P['outstanding'] and st['aw'] - st['w'] < P['skew'] and rnd.random() < pa:
                drv['awvalid'] = 1
                sim.set('axi_awaddr', writes[st['aw']]['addr'])
                sim.set('axi_awprot', rnd.randrange(8))
            if not drv['wvalid'] and st['w'] < len(writes) and st['w'] - st['b'] < P['outstanding'] and st['w'] - st['aw'] < P['skew'] and rnd.random() < (1.0 if drain else P['p_w']):
                drv['wvalid'] = 1
                sim.set('axi_wdata', writes[st['w']]['data'])
                sim.set('axi_wstrb', writes[st['w']]['strb'])
            if not drv['arvalid'] and st['ar'] < len(reads) and st['ar'] - st['r'] < (1 if exact else P['outstanding']) and rnd.random() < (1.0 if drain else P['p_ar']):
                drv['arvalid'] = 1
                sim.set('axi_araddr', reads[st['ar']]['addr'])
                sim.set('axi_arprot', rnd.randrange(8))
            drv['bready'] = 1 if drain else int(rnd.random() < P['p_b'])
            drv['rready'] = 1 if drain else int(rnd.random() < P['p_r'])
            if hw_changes and rnd.random() < 0.05:
                sim.set('hw_in', rnd.getrandbits(32))
            for k, v in drv.items():
                sim.set('axi_' + k, v)
            self.tick(model, writes, reads, st, drv, inputs, exact=exact)
            if self.viol:
                return
        # quiescence: notification counts must be exact, exports must show the final prefix
        for _ in range(3):
            self.tick(model, writes, reads, st, dict(awvalid=0, wvalid=0, arvalid=0, bready=0, rready=0), inputs, exact=exact)
            if self.viol:
                return
        final = self.prefix(len(writes), writes)
        for port, w, iname, fname in self.lay.exports:
            got = sim.get(port)
            want = final.export_value(port)
            if got.__class__ is not int or got != want:
                self.fail('hardware-visible-storage', f"at quiescence port {port} shows {fmt(got)} but the accepted writes leave {want:#x}")
                return
        for port, reg, kind in self.lay.notes:
            it = next(x for x in self.lay.items if x.name == reg)
            want = sum(1 for t in (reads if kind == 'rd' else writes) if t['addr'] == it.off + self.lay.window_base)
            if self.note_counts[port] != want:
                self.fail('notification-count', f"{port}: {self.note_counts[port]} pulse(s) for {want} completed {'read' if kind == 'rd' else 'write'}(s) of register {reg}")
                return
        model.store = final.store
        model.wcnt = final.wcnt
        cnt['write_transactions'] += len(writes)
        cnt['read_transactions'] += len(reads)
        self.addresses |= {t['addr'] for t in writes} | {t['addr'] for t in reads}

    def prefix(self, m, writes):
        pm = self.prefix_models
        while len(pm) <= m:
            nxt = pm[-1].copy()
            wtx = writes[len(pm) - 1]
            nxt.write(wtx['addr'], wtx['data'], wtx['strb'])
            pm.append(nxt)
        return pm[m]

    # ------------------------------------------------------------------ one clock: sample, check, edge, account
    def tick(self, model, writes, reads, st, drv, inputs, exact=False):
        sim, cnt = self.sim, self.cnt
        sim.settle()
        clk = self.clk
        out = {k: sim.get('axi_' + k) for k in ('awready', 'wready', 'bvalid', 'bresp', 'arready', 'rvalid', 'rdata', 'rresp')}
        hw_now = iv(sim.get('hw_in'))
        self.hw_hist[clk] = hw_now
        for k in ('awready', 'wready', 'bvalid', 'arready', 'rvalid'):
            if out[k].__class__ is not int:
                self.fail('metavalue-on-handshake-output', f"axi_{k} = {fmt(out[k])}")
                return
        if not st:
            sim.clock('axi_clk')
            self.clk += 1
            return
        aw_done, w_done = st['aw'], st['w']
        # --- no response without request
        if out['bvalid'] and not (st['b'] < aw_done and st['b'] < w_done):
            self.fail('response-without-request', f"bvalid is high although only {aw_done} address and {w_done} data beats were accepted and "
                      f"{st['b']} responses already given")
            return
        if out['rvalid'] and not st['r'] < st['ar']:
            self.fail('response-without-request', f"rvalid is high although {st['ar']} read addresses were accepted and {st['r']} read responses already given")
            return
        # --- valid never withdrawn, payload stable
        po = self.prev_out
        if po is not None:
            if po['bvalid'] and not po['_bhs']:
                if not out['bvalid']:
                    self.fail('valid-withdrawn', "bvalid dropped before bready")
                    return
                if fmt(out['bresp']) != fmt(po['bresp']):
                    self.fail('payload-changed-while-waiting', f"bresp changed from {fmt(po['bresp'])} to {fmt(out['bresp'])} while bvalid waited for bready")
                    return
            if po['rvalid'] and not po['_rhs']:
                if not out['rvalid']:
                    self.fail('valid-withdrawn', "rvalid dropped before rready")
                    return
                if fmt(out['rdata']) != fmt(po['rdata']) or fmt(out['rresp']) != fmt(po['rresp']):
                    self.fail('payload-changed-while-waiting', f"rdata/rresp changed from {fmt(po['rdata'])} to {fmt(out['rdata'])} while rvalid waited for rready")
                    return
        hs_aw = drv['awvalid'] and out['awready']
        hs_w = drv['wvalid'] and out['wready']
        hs_b = out['bvalid'] and drv['bready']
        hs_ar = drv['arvalid'] and out['arready']
        hs_r = out['rvalid'] and drv['rready']
        out['_bhs'], out['_rhs'] = hs_b, hs_r
        self.prev_out = out
        # --- hardware visible storage: must equal some prefix m of the accepted writes, monotonically
        both = min(aw_done, w_done)                   # writes whose address and data were accepted before this clock
        lo = max(self.applied_min, st['b'])
        if self.lay.exports:
            vals = {p: sim.get(p) for p, _, _, _ in self.lay.exports}
            ok_m = None
            for m in range(lo, both + 1):
                pmodel = self.prefix(m, writes)
                if all(vals[p].__class__ is int and vals[p] == pmodel.export_value(p) for p in vals):
                    ok_m = m
                    break
            cnt['export_checks'] += 1
            if ok_m is None:
                exp = {p: [hex(self.prefix(m, writes).export_value(p)) for m in range(lo, both + 1)] for p in vals}
                bad = [p for p in vals if fmt(vals[p]) not in [fmt(int(x, 16)) for x in exp[p]]][:3] or list(vals)[:3]
                self.fail('hardware-visible-storage', f"storage ports show {({p: fmt(vals[p]) for p in bad})}; the accepted writes allow only "
                          f"{({p: exp[p] for p in bad})} (writes {lo}..{both} of this phase: {[(hex(w['addr']), hex(w['data']), bin(w['strb'])) for w in writes[max(0, lo - 1):both]]})")
                return
            self.applied_min = ok_m
        # --- notifications
        for port, reg, kind in self.lay.notes:
            v = sim.get(port)
            if v.__class__ is not int:
                self.fail('metavalue-on-notification', f"{port} = {fmt(v)}")
                return
            if v:
                self.note_counts[port] += 1
                it = next(x for x in self.lay.items if x.name == reg)
                txs = reads if kind == 'rd' else writes
                acc = sum(1 for i, t in enumerate(txs) if t['addr'] == it.off + self.lay.window_base and (i < (st['ar'] if kind == 'rd' else both)))
                if self.note_counts[port] > acc:
                    self.fail('notification-without-access', f"{port} pulsed {self.note_counts[port]} time(s) but only {acc} "
                              f"{'read' if kind == 'rd' else 'write'}(s) of register {reg} were accepted so far")
                    return
        # --- read data
        if hs_r:
            rd = reads[st['r']]
            got = out['rdata']
            must = rd['must']                 # writes answered before the read address was accepted
            may = both                        # writes fully accepted before this response
            if exact:
                must = may = len(writes)
            hws = {self.hw_hist.get(c) for c in range(rd['ar'] - 1, clk + 1)} - {None}
            cands = set()
            for m in range(must, may + 1):
                pm = self.prefix(m, writes)
                for h in hws:
                    cands.add(pm.read(rd['addr'], h, inputs))
            cnt['read_values_checked'] += 1
            care = axigen.M32 if exact else model.care_mask(rd['addr'])
            if got.__class__ is not int or (got & care) not in {c & care for c in cands}:
                ent = model.map.get(rd['addr'])
                what = f"{ent[0].kind} {ent[0].name}[{ent[1]}]" if ent else "unmapped"
                self.fail('read-value:' + (ent[0].kind if ent else 'unmapped'),
                          f"read of {rd['addr']:#x} ({what}) returned {fmt(got)}; consistent values: {sorted(hex(c) for c in cands)[:6]} "
                          f"(prefixes {must}..{may}; recent writes to it: "
                          f"{[(hex(w['data']), bin(w['strb'])) for w in writes[:may] if w['addr'] == rd['addr']][-3:]})")
                return
        # --- clock edge and bookkeeping
        sim.clock('axi_clk')
        self.clk += 1
        b_before = st['b']          # write responses handshaken strictly before this clock
        if hs_aw:
            writes[st['aw']]['aw'] = clk; st['aw'] += 1; drv['awvalid'] = 0
        if hs_w:
            writes[st['w']]['w'] = clk; st['w'] += 1; drv['wvalid'] = 0
        if hs_b:
            writes[st['b']]['b'] = clk; st['b'] += 1
        if hs_ar:
            reads[st['ar']]['ar'] = clk
            # a master may rely on a write only after it has seen its response, i.e. for reads it requests later
            reads[st['ar']]['must'] = b_before
            st['ar'] += 1; drv['arvalid'] = 0
        if hs_r:
            a = reads[st['r']]['addr']
            if a in model.map and model.map[a][0].kind == 'creg':
                model.rcnt[a] = model.rcnt.get(a, 0) + 1
            reads[st['r']]['r'] = clk; st['r'] += 1


def run_case(case):
    cnt = Counter()
    rnd = random.Random(case['seed'])
    lay = axigen.Layout(case['seed'], style=case['style'])
    _n[0] += 1
    cname = f"AX{_n[0]}"
    src = lay.source(cname)
    mod = load_source(src, 'c20')
    try:
        try:
            comp = compile_top(getattr(mod, cname), timeout=90)
        except Rejected as r:
            cnt['rejected'] += 1
            cnt['rejected:' + r.msg[:60].replace('\n', ' ')] += 1
            return result(cnt=dict(cnt))
    finally:
        unload(mod)
    viol = []
    sigs = []
    cnt['designs_accepted'] += 1      # (every generated layout is a documented one: rejections are counted and bounded by REQUIRE)
    for k in lay.items:
        cnt['items:' + k.kind] += 1
    for prof in case['profiles']:
        run = Run(comp, lay, random.Random(rnd.getrandbits(32)), prof, case['txn'], cnt)
        try:
            run.run()
        except Unsupported as u:
            return result(cnt={'vsim_unsupported': 1}, inconclusive=f"vsim unsupported: {u}")
        if run.sim.issues:
            bad = [i for i in run.sim.issues if i[0] not in ('unused',)]
            if bad:
                cnt['vhdl_issues'] += len(bad)
        if run.viol:
            mech, msg = run.viol
            if lay.style == 'interconnect':
                mech = 'interconnect:' + mech
            viol.append(violation(mech, msg + f"; layout {[(i.kind, i.name, hex(i.off), i.words) for i in lay.items]}", source=src, vhdl=comp.text))
            break
        cnt['runs'] += 1
        if len(run.addresses) >= 8:
            sigs.append(digest(case['seed'], prof))
    sample = {'seed': case['seed'], 'items': [(i.kind, hex(i.off), i.words) for i in lay.items]} if case['seed'] % 5 == 0 else None
    return result(sig=sigs if sigs and not viol else None, viol=viol, cnt=dict(cnt), sample=sample)
