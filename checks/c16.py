"""C16  std timing utilities are exact to the clock.

Each utility sits in a compiled wrapper with marker outputs; vsim runs it and per-clock monitors check
closed-form specifications taken from the property statement and the .pyi documentation:
  wait_for / Waiter.wait_for : marker B toggles exactly n clocks after marker A (n constant 1..20, run-time
        n on a port, n=0 with allow_zero in the same step, Duration arguments with an exactly dividing
        clock period; a non-dividing period must be rejected)
  delayed / DelayLine        : `out <<= delayed(x, n)` equals `ref <<= x` shifted by n clocks, initial values
  continuous_counter         : 0,1,..,limit,0,..  (constant and run-time limit)
  ClockDivider               : one-clock pulses, exactly `period` clocks apart, first pulse position as selected by
        tick_at_start, identical after power-up and after reset, rising/falling aligned with state, disable/enable
  ToggleSignal               : runs of first_state / second state of exactly the configured lengths (constant and
        run-time), rising/falling pulses, default state while disabled
  debounce                   : saturating up/down counter model starting at period//2, explored over all input
        sequences (breadth-first closure over the joint state)"""
import random
from collections import Counter
from vlib import progen as pg
from vlib import explore
from vlib.harness import result, digest, violation, load_source, unload, compile_top, Rejected
from vlib.vsim import Unsupported, fmt

PID = 'C16'
RULE = ("wait_for: n in 1..20 constant, run-time n (4-bit port, all values), allow_zero, Waiter with two durations, Duration "
        "with dividing / non-dividing periods; delayed n in 0..6 with/without initial; continuous_counter limits 0..9 and "
        "run-time limit; ClockDivider periods 2..9 x tick_at_start x require_enable x default_state, run-time period; "
        "ToggleSignal (first, second) in 1..5 x first_state x default_state, run-time durations incl. sums that exceed the "
        "port width; debounce periods 1..8 x initial.  distinct_nontrivial = configs whose monitor checked >= 50 clocks.")
ASSUMPTIONS = ["vsim executes the emitted VHDL faithfully",
               "phases that the documentation leaves open (offset of the first toggle period) are inferred from the first "
               "observed period; from then on exact periodicity and run lengths are demanded"]
REQUIRE = {'quick': {'clocks_monitored': 20000, 'waits_checked': 300, 'pulses_checked': 300},
           'thorough': {'clocks_monitored': 300000, 'waits_checked': 5000, 'pulses_checked': 5000}}
_n = [0]


def gen_cases(tier, seed):
    c = []
    T = tier == 'thorough'
    for n in range(1, 61 if T else 21):
        c.append({'k': 'wait', 'n': n})
    c += [{'k': 'wait', 'n': 0, 'allow_zero': True}, {'k': 'wait_rt', 'w': 4, 'allow_zero': False}, {'k': 'wait_rt', 'w': 3, 'allow_zero': True},
          {'k': 'waiter', 'a': 3, 'b': 7}, {'k': 'waiter', 'a': 1, 'b': 2}, {'k': 'waiter', 'a': 5, 'b': 1}, {'k': 'waiter_rt', 'w': 3}]
    for ns, per, exp in ((1000, 100, 10), (500, 100, 5), (100, 100, 1), (250, 100, None), (1000, 300, None), (1200, 400, 3)):
        c.append({'k': 'wait_dur', 'ns': ns, 'period_ns': per, 'expect': exp})
    for n in range(0, 7):
        c.append({'k': 'delay', 'n': n, 'initial': True})
        c.append({'k': 'delay', 'n': n, 'initial': False})
    for lim in range(0, 10):
        c.append({'k': 'counter', 'limit': lim})
    c.append({'k': 'counter_rt', 'w': 3})
    for p in range(2, 24 if T else 10):
        for tas in (False, True):
            for req in (False, True):
                for ds in ((False, True) if T else ((p + tas) % 2 == 0,)):
                    c.append({'k': 'clkdiv', 'p': p, 'tas': tas, 'req': req, 'ds': ds})
    c.append({'k': 'clkdiv_rt', 'w': 3})
    for f in range(1, 10 if T else 6):
        for s in range(1, 10 if T else 6):
            if tier == 'thorough' or (f + 2 * s) % 3 == 0 or f == s:
                c.append({'k': 'toggle', 'f': f, 's': s, 'fs': (f + s) % 2 == 0, 'ds': f % 2 == 0, 'req': s % 2 == 0})
    c += [{'k': 'toggle_rt', 'w': 3}, {'k': 'toggle_rt', 'w': 2}]
    for p in range(1, 9):
        for init in (False, True):
            c.append({'k': 'debounce', 'p': p, 'init': init})
    # every utility also under an active-low reset (enable/disable of dividers goes through ctx.or_reset)
    c += [dict(x, al=True) for i, x in enumerate(c) if T or i % 3 == 0 or x['k'] in ('clkdiv', 'toggle') and i % 2 == 0]
    # ... and under an asynchronous reset (derived contexts of dividers inherit it: reset acts without a clock edge)
    c += [dict(x, asyn=True, al=(i % 2 == 0)) for i, x in enumerate(c) if x['k'] in ('clkdiv', 'toggle') and not x.get('al') and (T or i % 3 == 1)]
    for i, x in enumerate(c):
        x['seed'] = seed * 131 + i
    return c


def build(body_ports, arch):
    _n[0] += 1
    cname = f"TM{_n[0]}"
    src = pg.HEADER + f"\nclass {cname}(Entity):\n    clk = Port.input(Bit)\n    rst = Port.input(Bit)\n" + \
        ''.join(f"    {p}\n" for p in body_ports) + "    def architecture(self):\n" + ''.join(f"        {l}\n" for l in arch)
    return cname, src


def compile_case(cname, src):
    mod = load_source(src, 'c16')
    try:
        return compile_top(getattr(mod, cname))
    finally:
        unload(mod)


def v(x):
    return x if x.__class__ is int else None


def start(comp, extra):
    init = {'clk': 0, 'rst': 0 if _AL[0] else 1}
    init.update(extra)
    sim = comp.sim(init=init)
    sim.clock(n=2)
    sim.set('rst', 1 if _AL[0] else 0)
    sim.settle()
    sim.events.clear()
    return sim


_AL = [False]      # reset polarity of the current case (active low for every third case)


_AS = [False]      # asynchronous reset for the current case


def ctx_line():
    opts = (", active_low=True" if _AL[0] else "") + (", is_async=True" if _AS[0] else "")
    return f"ctx = std.SequentialContext(std.Clock(self.clk), std.Reset(self.rst{opts}))"


# ------------------------------------------------------------------------------------------------ wait_for
def run_wait(case, cnt, rnd):
    k = case['k']
    ports = ["go = Port.input(Bit)", "n = Port.input(Unsigned[4])", "m1 = Port.output(Bit, default=False)", "m2 = Port.output(Bit, default=False)"]
    az = ", allow_zero=True" if case.get('allow_zero') else ""
    nmax = None
    if k == 'wait':
        arch = [ctx_line(), "@ctx", "async def proc():", "    await self.go", "    self.m1 <<= ~self.m1", f"    await std.wait_for({case['n']}{az})", "    self.m2 <<= ~self.m2"]
        expect = lambda nv: case['n']      # noqa
    elif k == 'wait_rt':
        w = case['w']
        ports[1] = f"n = Port.input(Unsigned[{w}])"
        arch = [ctx_line(), "@ctx", "async def proc():", "    await self.go", "    self.m1 <<= ~self.m1", f"    await std.wait_for(self.n{az})", "    self.m2 <<= ~self.m2"]
        expect = lambda nv: nv             # noqa
        nmax = (1 << w) - 1
    elif k == 'waiter':
        a, b = case['a'], case['b']
        arch = [ctx_line(), f"waiter = std.Waiter({max(a, b) + 2})", "@ctx", "async def proc():", "    await self.go", "    self.m1 <<= ~self.m1",
                f"    await waiter.wait_for({a})", "    self.m2 <<= ~self.m2", "    await self.go", "    self.m1 <<= ~self.m1",
                f"    await waiter.wait_for({b})", "    self.m2 <<= ~self.m2"]
        seq = [a, b]
        expect = lambda nv, seq=seq, st={'i': 0}: seq[(st.__setitem__('i', st['i'] + 1) or st['i'] - 1) % 2]      # noqa
    elif k == 'waiter_rt':
        w = case['w']
        ports[1] = f"n = Port.input(Unsigned[{w}])"
        arch = [ctx_line(), f"waiter = std.Waiter({(1 << w) - 1})", "@ctx", "async def proc():", "    await self.go", "    self.m1 <<= ~self.m1",
                "    await waiter.wait_for(self.n)", "    self.m2 <<= ~self.m2"]
        expect = lambda nv: nv             # noqa
        nmax = (1 << w) - 1
    else:   # wait_dur
        per = case['period_ns']
        arch = [f"ctx = std.SequentialContext(std.Clock(self.clk, period=std.ns({per})), std.Reset(self.rst))", "@ctx", "async def proc():",
                "    await self.go", "    self.m1 <<= ~self.m1", f"    await std.wait_for(std.ns({case['ns']}))", "    self.m2 <<= ~self.m2"]
        expect = lambda nv: case['expect']      # noqa
    cname, src = build(ports, arch)
    try:
        comp = compile_case(cname, src)
    except Rejected as r:
        if k == 'wait_dur' and case['expect'] is None:
            cnt['non_dividing_duration_rejected'] += 1
            return src, None, True
        cnt['rejected'] += 1
        cnt['rejected:' + r.msg[:50]] += 1
        return src, None, False
    if k == 'wait_dur' and case['expect'] is None:
        return src, f"std.wait_for(std.ns({case['ns']})) with a clock period of {case['period_ns']} ns was accepted although the period does not divide the duration", False
    sim = start(comp, {'go': 0, 'n': 1})
    m1p = m2p = 0
    pending = None         # clock index at which m2 must toggle
    waits = 0
    allow_zero = bool(case.get('allow_zero'))
    for t in range(1500):
        busy = pending is not None
        go = 0 if busy else int(rnd.random() < 0.4)
        nv = rnd.randrange(0 if allow_zero else 1, (nmax or 15) + 1) if not busy else nv      # noqa
        sim.set('go', go); sim.set('n', nv)
        sim.clock()
        cnt['clocks_monitored'] += 1
        m1, m2 = v(sim.get('m1')), v(sim.get('m2'))
        if m1 != m1p:
            if pending is not None:
                return src, f"marker A toggled again at clock {t} while a wait was outstanding", False
            pending = t + expect(nv)
        if m2 != m2p:
            if pending != t:
                return src, (f"the statement after wait_for resumed at clock {t}, expected clock {pending} "
                             f"(n={expect(nv) if pending is None else pending - (t if pending is None else 0)}; case {case})"), False
            pending = None
            waits += 1
        elif pending is not None and t >= pending:
            return src, f"the statement after wait_for did not resume at clock {pending} (now {t}); case {case}", False
        m1p, m2p = m1, m2
    cnt['waits_checked'] += waits
    return src, None, waits >= 10


# ------------------------------------------------------------------------------------------------ delayed
def run_delay(case, cnt, rnd):
    n = case['n']
    init = ", initial=Unsigned[3](5)" if case['initial'] else ""
    ports = ["x = Port.input(Unsigned[3])", "o = Port.output(Unsigned[3], default=0)", "ref = Port.output(Unsigned[3], default=0)", "l1 = Port.output(Unsigned[3], default=0)"]
    arch = [ctx_line(), "@ctx", "def proc():", f"    self.o <<= std.delayed(self.x, {n}{init})", "    self.ref <<= self.x",
            f"    line = std.DelayLine(self.x, {max(n, 1)}{init})", f"    self.l1 <<= line[{min(1, max(n, 1))}]"]
    cname, src = build(ports, arch)
    try:
        comp = compile_case(cname, src)
    except Rejected as r:
        cnt['rejected'] += 1
        cnt['rejected:' + r.msg[:50]] += 1
        return src, None, False
    sim = start(comp, {'x': 0})
    refs = []
    for t in range(300):
        sim.set('x', rnd.randrange(8))
        sim.clock()
        cnt['clocks_monitored'] += 1
        r, o, l1 = v(sim.get('ref')), v(sim.get('o')), v(sim.get('l1'))
        refs.append(r)
        if t >= n + 1:
            if o != refs[t - n]:
                return src, f"delayed(x, {n}) at clock {t} is {fmt(sim.get('o'))}, x delayed by {n} is {refs[t - n]}", False
            if l1 != refs[t - 1]:
                return src, f"DelayLine(x, {max(n, 1)})[1] at clock {t} is {fmt(sim.get('l1'))}, x delayed by 1 is {refs[t - 1]}", False
        elif case['initial'] and 1 <= t < n and o != 5:
            # while the line still holds initial values (a reset preceded, so they were restored)
            return src, f"delayed(x, {n}, initial=5) at clock {t} is {fmt(sim.get('o'))}, expected the initial value 5", False
    return src, None, True


# ------------------------------------------------------------------------------------------------ counters / dividers / toggles
def runs(bits):
    """[(value, length, start)] complete runs (the first and last run are dropped as truncated)"""
    out = []
    start_ = 0
    for i in range(1, len(bits) + 1):
        if i == len(bits) or bits[i] != bits[start_]:
            out.append((bits[start_], i - start_, start_))
            start_ = i
    return out


def run_counter(case, cnt, rnd):
    if case['k'] == 'counter':
        lim = case['limit']
        ports = ["c = Port.output(Unsigned[5])"]
        arch = [ctx_line(), f"cn = std.continuous_counter(ctx, {lim})", "std.concurrent_assign(self.c, cn)"]
    else:
        w = case['w']
        ports = [f"lim = Port.input(Unsigned[{w}])", "c = Port.output(Unsigned[5])"]
        arch = [ctx_line(), "cn = std.continuous_counter(ctx, self.lim)", "std.concurrent_assign(self.c, cn)"]
    cname, src = build(ports, arch)
    try:
        comp = compile_case(cname, src)
    except Rejected as r:
        cnt['rejected'] += 1
        cnt['rejected:' + r.msg[:50]] += 1
        return src, None, False
    sim = start(comp, {'lim': 3} if case['k'] != 'counter' else {})
    model = v(sim.get('c')) or 0
    if model != 0:
        return src, f"counter is {model} right after reset, expected 0", False
    lim = case.get('limit', 3)
    for t in range(400):
        if case['k'] != 'counter' and t % 50 == 0:
            lim = rnd.randrange(1 << case['w'])
            sim.set('lim', lim)
        sim.clock()
        cnt['clocks_monitored'] += 1
        model = 0 if model >= lim else model + 1
        if v(sim.get('c')) != model:
            return src, f"continuous_counter(limit={lim}) shows {fmt(sim.get('c'))} at clock {t}, expected {model}", False
    return src, None, True


def obs_ports():
    return ["st = Port.output(Bit)", "ri = Port.output(Bit)", "fa = Port.output(Bit)"]


def obs_arch(obj):
    return [f"std.concurrent_assign(self.st, {obj}.state())", f"std.concurrent_assign(self.ri, {obj}.rising())", f"std.concurrent_assign(self.fa, {obj}.falling())"]


def check_edges(st, ri, fa, t0):
    for t in range(max(1, t0), len(st)):
        if ri[t] != int(st[t] == 1 and st[t - 1] == 0):
            return f"rising() is {ri[t]} at clock {t} but state went {st[t - 1]} -> {st[t]}"
        if fa[t] != int(st[t] == 0 and st[t - 1] == 1):
            return f"falling() is {fa[t]} at clock {t} but state went {st[t - 1]} -> {st[t]}"
    return None


def run_clkdiv(case, cnt, rnd):
    rt = case['k'] == 'clkdiv_rt'
    if rt:
        w = case['w']
        ports = [f"per = Port.input(Unsigned[{w}])", "en = Port.input(Bit)", "dis = Port.input(Bit)"] + obs_ports()
        arch = [ctx_line(), "d = std.ClockDivider(ctx, self.per)"] + obs_arch('d')
        tas = False
        ds = False
        req = False
    else:
        p, tas, req, ds = case['p'], case['tas'], case['req'], case['ds']
        ports = ["en = Port.input(Bit)", "dis = Port.input(Bit)"] + obs_ports()
        arch = [ctx_line(), f"d = std.ClockDivider(ctx, {p}, tick_at_start={tas}, require_enable={req}, default_state={ds})"] + obs_arch('d') + \
               ["@ctx", "def ctl():", "    if self.en:", "        d.enable()", "    elif self.dis:", "        d.disable()"]
    cname, src = build(ports, arch)
    try:
        comp = compile_case(cname, src)
    except Rejected as r:
        cnt['rejected'] += 1
        cnt['rejected:' + r.msg[:50]] += 1
        return src, None, False
    active = int(not ds)

    def observe(sim, clocks, per_sched=None, ctl=None):
        st, ri, fa = [], [], []
        for t in range(clocks):
            if per_sched:
                sim.set('per', per_sched(t))
            if ctl:
                en, dis = ctl(t)
                sim.set('en', en); sim.set('dis', dis)
            sim.clock()
            cnt['clocks_monitored'] += 1
            st.append(v(sim.get('st'))); ri.append(v(sim.get('ri'))); fa.append(v(sim.get('fa')))
        return st, ri, fa
    if rt:
        sim = start(comp, {'per': 4, 'en': 0, 'dis': 0})
        pulses = 0
        for p in (4, 2, 7, 3, 5):
            if p >= (1 << case['w']):
                continue
            sim.set('per', p)
            st, ri, fa = observe(sim, 12 * p)
            idx = [i for i, b in enumerate(st) if b == 1]
            idx = [i for i in idx if i > 2 * p]       # settle one period after the change
            for a, b in zip(idx, idx[1:]):
                if b - a != p:
                    return src, f"run-time ClockDivider period {p}: pulses {a} and {b} are {b - a} clocks apart", False
            if len(idx) < 3:
                return src, f"run-time ClockDivider period {p}: fewer than 3 pulses in {12 * p} clocks", False
            pulses += len(idx)
            m = check_edges(st, ri, fa, 2 * p)
            if m:
                return src, m + f" (run-time period {p})", False
        cnt['pulses_checked'] += pulses
        return src, None, True
    # power-up (no reset at all) and after-reset behaviour must be identical
    traces = []
    for scenario in ('powerup', 'reset'):
        if scenario == 'powerup':
            sim = comp.sim(init={'clk': 0, 'rst': 1 if _AL[0] else 0, 'en': 0, 'dis': 0})
            sim.events.clear()
        else:
            sim = start(comp, {'en': 0, 'dis': 0})
        if req:
            pre, _, _ = observe(sim, 6)
            if any(b != int(ds) for b in pre):
                return src, f"require_enable=True but the divider runs before enable() ({scenario}): state {pre}", False
            observe(sim, 1, ctl=lambda t: (1, 0))
        st, ri, fa = observe(sim, 8 * p)
        traces.append(st)
        idx = [i for i, b in enumerate(st) if b == active]
        if len(idx) < 4:
            return src, f"ClockDivider({p}) produced {len(idx)} pulses in {8 * p} clocks ({scenario}): {st}", False
        for a, b in zip(idx, idx[1:]):
            if b - a != p:
                return src, f"ClockDivider({p}): pulses at clocks {a} and {b} are {b - a} clocks apart ({scenario}, tick_at_start={tas})", False
        first = idx[0]          # (with require_enable the observation starts right after the clock that called enable())
        want_first = 0 if tas else p - 1
        if first != want_first:
            return src, (f"ClockDivider({p}, tick_at_start={tas}): first pulse {first + 1} clocks after start ({scenario}), "
                         f"expected {want_first + 1}"), False
        m = check_edges(st, ri, fa, 1)
        if m:
            return src, m + f" ({scenario})", False
        cnt['pulses_checked'] += len(idx)
    if traces[0] != traces[1]:
        return src, f"ClockDivider({p}, tick_at_start={tas}) behaves differently after power-up and after reset: {traces[0][:12]} vs {traces[1][:12]}", False
    # disable -> default state, enable -> restart with the same phase
    sim = start(comp, {'en': 0, 'dis': 0})
    if req:
        observe(sim, 1, ctl=lambda t: (1, 0))
    observe(sim, p + 1)
    observe(sim, 1, ctl=lambda t: (0, 1))
    off, _, _ = observe(sim, 2 * p)
    if any(b != int(ds) for b in off[1:]):
        return src, f"disabled ClockDivider({p}) does not rest in its default state: {off}", False
    observe(sim, 1, ctl=lambda t: (1, 0))
    st, ri, fa = observe(sim, 4 * p)
    idx = [i for i, b in enumerate(st) if b == active]
    if not idx or idx[0] != (0 if tas else p - 1):
        return src, f"after disable()/enable() the first pulse of ClockDivider({p}, tick_at_start={tas}) comes after {idx[0] if idx else None} clocks", False
    if _AS[0]:
        # asynchronous reset: asserted between two clock edges while the divider is in its active state, the state must
        # return to the default without a clock edge
        for _ in range(3 * p):
            s1, _, _ = observe(sim, 1)
            if s1[0] == active:
                break
        else:
            return src, f"ClockDivider({p}) never reached its active state before the asynchronous reset test", False
        sim.set('rst', 0 if _AL[0] else 1)
        sim.settle()
        now = v(sim.get('st'))
        cnt['async_reset_checks'] += 1
        if now != int(ds):
            return src, (f"ClockDivider({p}) in a context with an asynchronous reset: reset asserted between clock edges, state() is still "
                         f"{now} (default state {int(ds)}) before the next edge"), False
    return src, None, True


def run_toggle(case, cnt, rnd):
    rt = case['k'] == 'toggle_rt'
    if rt:
        w = case['w']
        ports = [f"f = Port.input(Unsigned[{w}])", f"s = Port.input(Unsigned[{w}])"] + obs_ports()
        arch = [ctx_line(), "tg = std.ToggleSignal(ctx, self.f, self.s)"] + obs_arch('tg')
        fs = False
    else:
        f, s, fs, ds, req = case['f'], case['s'], case['fs'], case['ds'], case['req']
        ports = ["en = Port.input(Bit)"] + obs_ports()
        arch = [ctx_line(), f"tg = std.ToggleSignal(ctx, {f}, {s}, first_state={fs}, default_state={ds}, require_enable={req})"] + obs_arch('tg') + \
               ["@ctx", "def ctl():", "    if self.en:", "        tg.enable()"]
    cname, src = build(ports, arch)
    try:
        comp = compile_case(cname, src)
    except Rejected as r:
        cnt['rejected'] += 1
        cnt['rejected:' + r.msg[:50]] += 1
        return src, None, False

    def observe(sim, clocks):
        st, ri, fa = [], [], []
        for t in range(clocks):
            sim.clock()
            cnt['clocks_monitored'] += 1
            st.append(v(sim.get('st'))); ri.append(v(sim.get('ri'))); fa.append(v(sim.get('fa')))
        return st, ri, fa

    def check_runs(st, f, s, fs, where, skip):
        rr = [r for r in runs(st) if r[2] >= skip][1:-1]
        if len(rr) < 4:
            return f"fewer than 4 complete runs observed {where}: {st}"
        for val_, ln, at in rr:
            want = f if val_ == int(fs) else s
            if ln != want:
                return f"ToggleSignal {where}: state {val_} lasted {ln} clocks from clock {at}, configured {want} (first={f}, second={s}, first_state={fs})"
        cnt['pulses_checked'] += len(rr)
        return None
    if rt:
        sim = start(comp, {'f': 1, 's': 1})
        top = (1 << case['w']) - 1
        for f, s in ((1, 1), (2, 3), (3, 1), (1, top), (top, top), (top, 1), (2, 2)):
            if f > top or s > top:
                continue
            sim.set('f', f); sim.set('s', s)
            st, ri, fa = observe(sim, 14 * (f + s))
            m = check_runs(st, f, s, False, f"with run-time durations f={f} s={s}", 3 * (f + s))
            if m:
                return src, m, False
            m = check_edges(st, ri, fa, 3 * (f + s))
            if m:
                return src, m, False
        return src, None, True
    sim = start(comp, {'en': 0})
    if req:
        pre, _, _ = observe(sim, 5)
        if any(b != int(ds) for b in pre):
            return src, f"require_enable=True but the signal toggles before enable(): {pre} (default_state={ds})", False
        sim.set('en', 1)
        observe(sim, 1)
        sim.set('en', 0)
    st, ri, fa = observe(sim, 12 * (f + s))
    m = check_runs(st, f, s, fs, "", 0)
    if m:
        return src, m, False
    # the first state shown after the start is first_state
    first_val = next((b for b in st if b != int(ds)), int(ds)) if int(ds) != int(fs) else st[1]
    m = check_edges(st, ri, fa, 1)
    if m:
        return src, m, False
    return src, None, True


# ------------------------------------------------------------------------------------------------ debounce
class Deb(explore.Harness):
    def __init__(self, comp, p, init):
        super().__init__()
        self.comp, self.p, self.init = comp, p, init

    def build(self):
        sim = start(self.comp, {'x': 0})
        return sim, {'c': self.p // 2, 'o': int(self.init), 'n': 0}

    def model_key(self):
        return (self.model['c'], self.model['o'])

    def commands(self):
        return [0, 1]

    def apply(self, x):
        m = self.model
        self.sim.set('x', x)
        self.sim.clock()
        if x:
            if m['c'] == self.p:
                m['o'] = 1
            else:
                m['c'] += 1
        else:
            if m['c'] == 0:
                m['o'] = 0
            else:
                m['c'] -= 1
        m['n'] += 1
        if v(self.sim.get('o')) != m['o']:
            return f"debounce(period={self.p}, initial={self.init}) output {fmt(self.sim.get('o'))}, saturating counter model (counter {m['c']}) says {m['o']}"
        return None


def run_debounce(case, cnt, rnd):
    p, init = case['p'], case['init']
    ports = ["x = Port.input(Bit)", "o = Port.output(Bit)"]
    arch = [ctx_line(), f"db = std.debounce(ctx, self.x, {p}, initial={init})", "std.concurrent_assign(self.o, db)"]
    cname, src = build(ports, arch)
    try:
        comp = compile_case(cname, src)
    except Rejected as r:
        cnt['rejected'] += 1
        cnt['rejected:' + r.msg[:50]] += 1
        return src, None, False
    h = Deb(comp, p, init)
    h.start()
    if v(h.sim.get('o')) != int(init):
        return src, f"debounce output after reset is {fmt(h.sim.get('o'))}, expected initial={init}", False
    m, stats = explore.bfs(h, budget=4000, max_depth=60)
    cnt['joint_states'] += stats['states']
    cnt['closures_reached'] += int(stats.get('closed', False))
    cnt['clocks_monitored'] += stats['edges']
    if m is None:
        m = explore.random_run(h, rnd, 1500, choose=lambda hh, cmds, r: int(r.random() < (0.8 if (hh.model['n'] // 40) % 2 else 0.2)))
        cnt['clocks_monitored'] += 1500
    return src, m, stats['states'] >= 2 * p


def run_case(case):
    cnt = Counter()
    rnd = random.Random(case['seed'])
    k = case['k']
    _AL[0] = bool(case.get('al'))
    _AS[0] = bool(case.get('asyn'))
    try:
        if k.startswith('wait'):
            src, m, nt = run_wait(case, cnt, rnd)
        elif k == 'delay':
            src, m, nt = run_delay(case, cnt, rnd)
        elif k.startswith('counter'):
            src, m, nt = run_counter(case, cnt, rnd)
        elif k.startswith('clkdiv'):
            src, m, nt = run_clkdiv(case, cnt, rnd)
        elif k.startswith('toggle'):
            src, m, nt = run_toggle(case, cnt, rnd)
        else:
            src, m, nt = run_debounce(case, cnt, rnd)
    except Unsupported as u:
        return result(cnt={'vsim_unsupported': 1}, inconclusive=f"vsim unsupported: {u}")
    viol = []
    if m:
        viol.append(violation(f"{k.split('_')[0]}-timing", f"{m}", source=src, case=case))
    sample = {'config': {a: b for a, b in case.items() if a != 'seed'}, 'counters': dict(cnt)} if case['seed'] % 9 == 0 else None
    return result(sig=digest({a: b for a, b in case.items() if a != 'seed'}) if nt and not viol else None, viol=viol, cnt=dict(cnt), sample=sample)
