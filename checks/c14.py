"""C14  std.Fifo and std.Stack keep order, content and occupancy exact.

Compiled wrapper entities are executed by vsim against a deque / list model:
  * Fifo, one context: commands {none, push v, pop, push v + pop} respecting the documented
    preconditions; empty / full / popped value compared after every clock; the emitted `assert`
    statements (std's own precondition checks) must never fire.  Breadth-first closure over the
    joint state with a 2-bit data domain, then long random runs biased to the full/empty boundary.
  * Fifo, producer and consumer in different contexts with delay / tx_delay / rx_delay in 0..3: every
    accepted push gets a unique id; an offline checker over the recorded (accepted push, pop)
    events demands popped sequence == pushed sequence, occupancy within 0..N-1 at all times, and
    bounded drain once the producer stops.
  * Stack in both modes: {none, push v, pop, reset} vs a list model with exact size/empty/full/front;
    drop-old mode discards exactly the oldest element."""
import random
from collections import Counter, deque
from vlib import progen as pg
from vlib import explore
from vlib.harness import result, digest, violation, load_source, unload, compile_top, Rejected
from vlib.vsim import Meta, Uninit, Unsupported, fmt

PID = 'C14'
RULE = ("configs: Fifo N in {2,3,4,5,7,8} x element type {Unsigned[2] (closure), Unsigned[8] (unique ids)} in one context; "
        "Fifo N in {2,3,4,5,8} x (tx_delay, rx_delay) in {0..3}^2 \\ (0,0) in two contexts; Stack N in {1,2,3,4,5,8} x "
        "{NO_OVERFLOW, DROP_OLD}; two-context consumers that pop twice per round (coroutine with two receive(), two guarded pops); "
        "Fifo + Stack of std.Array elements fed with array slices.  Each config: breadth-first joint-state exploration of all legal commands (budget) "
        "+ random runs.  distinct_nontrivial = configs explored with >= 20 joint states or >= 100 transferred elements.")
ASSUMPTIONS = ["vsim executes the emitted VHDL faithfully", "the harness never breaks a documented precondition (no push when "
               "full, no pop when empty); the emitted assert statements cross-check that"]
REQUIRE = {'quick': {'array_elements_compared': 500, 'fifo_elements_transferred': 2000, 'stack_ops': 2000, 'joint_states': 1000},
           'thorough': {'array_elements_compared': 500, 'fifo_elements_transferred': 100000, 'stack_ops': 100000, 'joint_states': 20000}}


def gen_cases(tier, seed):
    cases = []
    for n in (2, 3, 4, 5, 7, 8):
        cases.append({'k': 'fifo1', 'n': n, 'dw': 2, 'seed': seed})
        cases.append({'k': 'fifo1', 'n': n, 'dw': 8, 'seed': seed + 1})
    delays = [(t, r) for t in range(4) for r in range(4) if (t, r) != (0, 0)]
    ns = (2, 3, 4, 5, 8)
    rnd = random.Random(seed)
    for n in ns:
        ds = delays if tier == 'thorough' else rnd.sample(delays, 4)
        for t, r in ds:
            cases.append({'k': 'fifo2', 'n': n, 'tx': t, 'rx': r, 'seed': seed * 11 + n + t * 4 + r})
    for n in ns:
        cases.append({'k': 'fifo2', 'n': n, 'delay': rnd.randint(1, 3), 'seed': seed * 13 + n})
    for n in (3, 4, 8):
        for style in ('twice', 'guarded2'):
            cases.append({'k': 'fifo2', 'n': n, 'delay': rnd.randint(1, 2), 'style': style, 'seed': seed * 17 + n})
            t, r = rnd.choice(delays)
            cases.append({'k': 'fifo2', 'n': n, 'tx': t, 'rx': r, 'style': style, 'seed': seed * 19 + n})
    for n in (2, 3, 5):
        cases.append({'k': 'arrcont', 'n': n, 'seed': seed * 23 + n})
    for n in (1, 2, 3, 4, 5, 8):
        for mode in ('NO_OVERFLOW', 'DROP_OLD'):
            cases.append({'k': 'stack', 'n': n, 'mode': mode, 'dw': 2, 'seed': seed})
            cases.append({'k': 'stack', 'n': n, 'mode': mode, 'dw': 8, 'seed': seed + 1})
    if tier == 'thorough':
        # the same configurations with other seeds and more capacities, and much longer runs
        extra = []
        for k in (1, 2, 3):
            extra += [dict(c, seed=c['seed'] + 1000 * k) for c in cases]
        for n in (6, 9, 16):
            extra.append({'k': 'fifo1', 'n': n, 'dw': 8, 'seed': seed + n})
            extra.append({'k': 'fifo2', 'n': n, 'tx': 2, 'rx': 1, 'seed': seed + n})
            for mode in ('NO_OVERFLOW', 'DROP_OLD'):
                extra.append({'k': 'stack', 'n': n, 'mode': mode, 'dw': 8, 'seed': seed + n})
        cases += extra
        for c in cases:
            c['scale'] = 6
            if c['k'] == 'fifo2':
                c['clocks'] = 12000
    return cases


_n = [0]


def compile_src(src, cname):
    mod = load_source(src, 'c14')
    try:
        comp = compile_top(getattr(mod, cname))
    finally:
        unload(mod)
    return comp


def val(x):
    return x if x.__class__ is int else None


# ------------------------------------------------------------------------------------------------ Fifo, one context
class Fifo1(explore.Harness):
    def __init__(self, n, dw, comp, rnd):
        super().__init__()
        self.n, self.dw, self.comp, self.rnd = n, dw, comp, rnd
        self.datas = list(range(1 << dw)) if dw <= 2 else None
        self.counter = 0

    def build(self):
        sim = self.comp.sim(init={'clk': 0, 'rst': 1, 'push': 0, 'pop': 0, 'din': 0})
        sim.clock()
        sim.set('rst', 0)
        sim.settle()
        sim.events.clear()
        return sim, {'q': deque(), 'moved': 0}

    def model_key(self):
        return tuple(self.model['q'])

    def commands(self):
        q = self.model['q']
        cmds = [('none', 0)]
        full = len(q) == self.n - 1
        empty = len(q) == 0
        ds = self.datas if self.datas is not None else [None]
        if not full:
            cmds += [('push', d) for d in ds]
        if not empty:
            cmds.append(('pop', 0))
        if not full and not empty:
            cmds += [('both', d) for d in ds]
        return cmds

    def apply(self, cmd):
        op, d = cmd
        sim, q = self.sim, self.model['q']
        if d is None:
            self.counter = (self.counter + 1) % (1 << self.dw)
            d = self.counter
        push = op in ('push', 'both')
        pop = op in ('pop', 'both')
        sim.set('push', int(push)); sim.set('pop', int(pop)); sim.set('din', d)
        exp = None
        if pop:
            exp = q.popleft()
            self.model['moved'] += 1
        if push:
            q.append(d)
        sim.clock()
        if sim.events.get('assert-failed'):
            return f"std's own precondition assert fired ({sim.asserts_failed[-1]!r}) although the model holds {len(q)} of {self.n - 1} elements"
        if pop:
            if val(sim.get('vld')) != 1 or val(sim.get('dout')) != exp:
                return f"pop returned {fmt(sim.get('dout'))} (valid={fmt(sim.get('vld'))}), expected {exp}"
        e, f = val(sim.get('empty')), val(sim.get('full'))
        if e != int(len(q) == 0) or f != int(len(q) == self.n - 1):
            return f"occupancy {len(q)} of capacity {self.n - 1}: empty={fmt(sim.get('empty'))} full={fmt(sim.get('full'))}"
        if len(q) and val(sim.get('front')) != q[0]:
            return f"front() is {fmt(sim.get('front'))}, expected {q[0]}"
        return None


def fifo1_src(cname, n, dw):
    return pg.HEADER + f"""
class {cname}(Entity):
    clk = Port.input(Bit)
    rst = Port.input(Bit)
    push = Port.input(Bit)
    pop = Port.input(Bit)
    din = Port.input(Unsigned[{dw}])
    dout = Port.output(Unsigned[{dw}], default=0)
    vld = Port.output(Bit, default=False)
    front = Port.output(Unsigned[{dw}])
    empty = Port.output(Bit)
    full = Port.output(Bit)
    def architecture(self):
        fifo = std.Fifo[Unsigned[{dw}], {n}]()
        std.concurrent_assign(self.empty, fifo.empty())
        std.concurrent_assign(self.full, fifo.full())
        @std.concurrent
        def fr():
            self.front <<= fifo.front()
        @std.sequential(std.Clock(self.clk), std.Reset(self.rst))
        def proc():
            self.vld <<= False
            if self.push:
                fifo.push(self.din)
            if self.pop:
                self.dout <<= fifo.pop()
                self.vld <<= True
"""


def boundary_choice(h, cmds, rnd):
    """bias towards filling up / draining completely"""
    phase = (h.model.get('phase', 0))
    if rnd.random() < 0.02:
        h.model['phase'] = rnd.choice([0, 1, 2])
    pref = {0: ('push', 'both'), 1: ('pop', 'both'), 2: ('none', 'push', 'pop', 'both')}[phase]
    c = [x for x in cmds if x[0] in pref]
    return rnd.choice(c or cmds)


# ------------------------------------------------------------------------------------------------ Fifo, two contexts
def fifo2_src(cname, n, kw, style='plain'):
    if style == 'twice':
        # a coroutine consumer that takes two elements per round: its second receive() is elaborated after an earlier pop
        # in the same context function
        return fifo2_src(cname, n, kw).split("        @ctx\n        def consumer():")[0] + """        @ctx
        async def consumer():
            await self.want_pop
            self.dout <<= await fifo.receive()
            self.popped ^= True
            self.dout <<= await fifo.receive()
            self.popped ^= True
"""
    if style == 'guarded2':
        # two guarded pops in one context function, selected by the data input of the consumer side
        return fifo2_src(cname, n, kw).split("        @ctx\n        def consumer():")[0] + """        @ctx
        def consumer():
            self.popped <<= False
            if self.want_pop and self.din[0]:
                if not fifo.empty():
                    self.dout <<= fifo.pop()
                    self.popped <<= True
            elif self.want_pop:
                if not fifo.empty():
                    self.dout <<= fifo.pop()
                    self.popped <<= True
"""
    return pg.HEADER + f"""
class {cname}(Entity):
    clk = Port.input(Bit)
    rst = Port.input(Bit)
    want_push = Port.input(Bit)
    want_pop = Port.input(Bit)
    din = Port.input(Unsigned[10])
    dout = Port.output(Unsigned[10], default=0)
    popped = Port.output(Bit, default=False)
    pushed = Port.output(Bit, default=False)
    def architecture(self):
        fifo = std.Fifo[Unsigned[10], {n}]({kw})
        ctx = std.SequentialContext(std.Clock(self.clk), std.Reset(self.rst))
        @ctx
        def producer():
            self.pushed <<= False
            if self.want_push and not fifo.full():
                fifo.push(self.din)
                self.pushed <<= True
        @ctx
        def consumer():
            self.popped <<= False
            if self.want_pop and not fifo.empty():
                self.dout <<= fifo.pop()
                self.popped <<= True
"""


def run_fifo2(case, cnt):
    n = case['n']
    if 'delay' in case:
        kw = f"delay={case['delay']}"
        dmax = case['delay']
    else:
        kw = f"tx_delay={case['tx']}, rx_delay={case['rx']}"
        dmax = max(case['tx'], case['rx'])
    _n[0] += 1
    cname = f"FF{_n[0]}"
    src = fifo2_src(cname, n, kw, case.get('style', 'plain'))
    try:
        comp = compile_src(src, cname)
    except Rejected as r:
        cnt['rejected'] += 1
        cnt['rejected:' + r.msg[:50]] += 1
        return None, None
    rnd = random.Random(case['seed'])
    sim = comp.sim(init={'clk': 0, 'rst': 1, 'want_push': 0, 'want_pop': 0, 'din': 0})
    sim.clock(n=2)
    sim.set('rst', 0)
    sim.events.clear()
    log = []          # event log: ('push', id, clk) / ('pop', value, clk)
    nxt = 1
    clocks = case.get('clocks', 3000)
    pp, pc = rnd.choice([(0.8, 0.3), (0.3, 0.8), (0.6, 0.6), (1.0, 1.0), (0.95, 0.1)]), None
    offered = None
    for t in range(clocks):
        if t % 400 == 0:
            pp = rnd.choice([(0.8, 0.3), (0.3, 0.8), (0.6, 0.6), (1.0, 1.0), (0.95, 0.05), (0.05, 0.95)])
        drain = t > clocks - 40 * (dmax + 3) - 8 * n
        wp = 0 if drain else int(rnd.random() < pp[0])
        wc = 1 if drain else int(rnd.random() < pp[1])
        sim.set('want_push', wp); sim.set('want_pop', wc); sim.set('din', nxt)
        sim.clock()
        if val(sim.get('pushed')) == 1:
            log.append(('push', nxt, t))
            nxt = nxt % 1023 + 1
        if val(sim.get('popped')) == 1:
            log.append(('pop', val(sim.get('dout')), t))
    # ---- offline checker over the event log
    q = deque()
    occ_max = 0
    for ev, v, t in log:
        if ev == 'push':
            q.append(v)
            occ_max = max(occ_max, len(q))
            if len(q) > n - 1:
                return src, f"occupancy {len(q)} exceeds capacity {n - 1} at clock {t} ({kw}): the producer saw 'not full' on a full fifo"
        else:
            if not q:
                return src, f"pop at clock {t} returned {v} although nothing is stored ({kw})"
            e = q.popleft()
            if e != v:
                return src, f"pop at clock {t} returned {v}, expected {e} (order / loss / duplication) ({kw})"
    if q:
        return src, f"{len(q)} accepted elements were never delivered although the consumer drained for {40 * (dmax + 3) + 8 * n} clocks ({kw})"
    if sim.events.get('assert-failed'):
        return src, f"std's own precondition assert fired: {sim.asserts_failed[-1]!r} ({kw})"
    cnt['fifo_elements_transferred'] += sum(1 for e in log if e[0] == 'pop')
    cnt['fifo2_max_occupancy_reached'] += int(occ_max == n - 1)
    cnt['fifo2_configs'] += 1
    return src, None


# ------------------------------------------------------------------------------------------------ containers of arrays
def run_arrcont(case, cnt):
    """Fifo and Stack whose element type is std.Array[BitVector[4], 2]; the pushed values are two-element slices of a larger
    std.Array (starting at index 0 and at index 2), whole arrays and lists"""
    n = case['n']
    _n[0] += 1
    cname = f"AC{_n[0]}"
    src = pg.HEADER + f"""
Pair = std.Array[BitVector[4], 2]

class {cname}(Entity):
    clk = Port.input(Bit)
    rst = Port.input(Bit)
    din = Port.input(BitVector[8])
    cmd = Port.input(Unsigned[3])
    s0 = Port.output(BitVector[4], default=Null)
    s1 = Port.output(BitVector[4], default=Null)
    f0 = Port.output(BitVector[4], default=Null)
    f1 = Port.output(BitVector[4], default=Null)
    def architecture(self):
        ctx = std.SequentialContext(std.Clock(self.clk), std.Reset(self.rst))
        stack = std.Stack[Pair, {n}](name='stk')
        fifo = std.Fifo[Pair, {n + 1}](name='ff')
        window = std.Array[BitVector[4], 4](name='window')
        pair = std.Array[BitVector[4], 2](name='pair')
        @std.concurrent
        def logic():
            window[0] <<= self.din[3:0]
            window[1] <<= self.din[7:4]
            window[2] <<= ~self.din[3:0]
            window[3] <<= ~self.din[7:4]
            pair[0] <<= self.din[7:4]
            pair[1] <<= self.din[3:0]
        @ctx
        def proc_stack():
            if self.cmd == 1:
                stack.push(window[0:1])
            elif self.cmd == 2:
                stack.push(window[2:3])
            elif self.cmd == 3:
                stack.push(pair)
            elif self.cmd == 4:
                stack.push(window[1:2])
            elif self.cmd == 5:
                data = stack.pop()
                self.s0 <<= data[0]
                self.s1 <<= data[1]
        @ctx
        def proc_fifo():
            if self.cmd == 1:
                fifo.push(window[0:1])
            elif self.cmd == 2:
                fifo.push(window[2:3])
            elif self.cmd == 3:
                fifo.push(pair)
            elif self.cmd == 4:
                fifo.push(window[1:2])
            elif self.cmd == 5:
                data = fifo.pop()
                self.f0 <<= data[0]
                self.f1 <<= data[1]
"""
    try:
        comp = compile_src(src, cname)
    except Rejected as r:
        cnt['rejected'] += 1
        cnt['rejected:' + r.msg[:50]] += 1
        return src, None
    rnd = random.Random(case['seed'])
    sim = comp.sim(init={'clk': 0, 'rst': 1, 'din': 0, 'cmd': 0})
    sim.clock(n=2)
    sim.set('rst', 0)
    sim.events.clear()
    model = []          # both containers receive the same commands: list used as stack and as queue (separate copies)
    stk, que = [], []
    bias = 0.6
    for t in range(case.get('clocks', 1500) * case.get('scale', 1)):
        if t % 200 == 0:
            bias = rnd.choice([0.8, 0.5, 0.2])
        d = rnd.getrandbits(8)
        lo, hi = d & 15, d >> 4
        w = [lo, hi, ~lo & 15, ~hi & 15]
        can_push = len(stk) < n
        can_pop = len(stk) > 0
        r = rnd.random()
        if can_push and (r < bias or not can_pop):
            cmd = rnd.choice([1, 2, 3, 4])
        elif can_pop and r < 0.95:
            cmd = 5
        else:
            cmd = 0
        sim.set('din', d); sim.set('cmd', cmd)
        sim.clock()
        if cmd in (1, 2, 3, 4):
            e = {1: (w[0], w[1]), 2: (w[2], w[3]), 3: (hi, lo), 4: (w[1], w[2])}[cmd]
            stk.append(e); que.append(e)
            cnt['stack_ops'] += 1
        elif cmd == 5:
            es, eq = stk.pop(), que.pop(0)
            got_s = (val(sim.get('s0')), val(sim.get('s1')))
            got_q = (val(sim.get('f0')), val(sim.get('f1')))
            cnt['stack_ops'] += 1
            cnt['fifo_elements_transferred'] += 1
            cnt['array_elements_compared'] += 2
            if got_s != es:
                return src, f"Stack of std.Array elements: pop at clock {t} returned {got_s}, pushed was {es}"
            if got_q != eq:
                return src, f"Fifo of std.Array elements: pop at clock {t} returned {got_q}, pushed was {eq}"
    if sim.events.get('assert-failed'):
        return src, f"std's own precondition assert fired: {sim.asserts_failed[-1]!r}"
    cnt['arrcont_configs'] += 1
    return src, None


# ------------------------------------------------------------------------------------------------ Stack
def stack_src(cname, n, mode, dw):
    return pg.HEADER + f"""
class {cname}(Entity):
    clk = Port.input(Bit)
    push = Port.input(Bit)
    pop = Port.input(Bit)
    clr = Port.input(Bit)
    din = Port.input(Unsigned[{dw}])
    dout = Port.output(Unsigned[{dw}], default=0)
    vld = Port.output(Bit, default=False)
    front = Port.output(Unsigned[{dw}])
    size = Port.output(Unsigned[5])
    empty = Port.output(Bit)
    full = Port.output(Bit)
    def architecture(self):
        stack = std.Stack[Unsigned[{dw}], {n}](mode=std.StackMode.{mode})
        @std.concurrent
        def obs():
            self.empty <<= stack.empty()
            self.full <<= stack.full()
            self.size <<= stack.size()
            self.front <<= stack.front()
        @std.sequential(std.Clock(self.clk))
        def proc():
            self.vld <<= False
            if self.clr:
                stack.reset()
            elif self.push:
                stack.push(self.din)
            elif self.pop:
                self.dout <<= stack.pop()
                self.vld <<= True
"""


class StackH(explore.Harness):
    def __init__(self, n, mode, dw, comp):
        super().__init__()
        self.n, self.mode, self.dw, self.comp = n, mode, dw, comp
        self.datas = list(range(1 << dw)) if dw <= 2 else None
        self.counter = 0

    def build(self):
        sim = self.comp.sim(init={'clk': 0, 'push': 0, 'pop': 0, 'clr': 1, 'din': 0})
        sim.clock()
        sim.set('clr', 0)
        sim.settle()
        sim.events.clear()
        return sim, {'s': [], 'ops': 0}

    def model_key(self):
        return tuple(self.model['s'])

    def commands(self):
        s = self.model['s']
        cmds = [('none', 0), ('clr', 0)]
        ds = self.datas if self.datas is not None else [None]
        if len(s) < self.n or self.mode == 'DROP_OLD':
            cmds += [('push', d) for d in ds]
        if s:
            cmds.append(('pop', 0))
        return cmds

    def apply(self, cmd):
        op, d = cmd
        sim, s = self.sim, self.model['s']
        if d is None:
            self.counter = (self.counter + 1) % (1 << self.dw)
            d = self.counter
        sim.set('push', int(op == 'push')); sim.set('pop', int(op == 'pop')); sim.set('clr', int(op == 'clr')); sim.set('din', d)
        exp = None
        if op == 'push':
            if len(s) == self.n:
                s.pop(0)          # drop-old: exactly the oldest element is discarded
            s.append(d)
        elif op == 'pop':
            exp = s.pop()
        elif op == 'clr':
            s.clear()
        self.model['ops'] += 1
        sim.clock()
        if sim.events.get('assert-failed'):
            return f"std's own precondition assert fired ({sim.asserts_failed[-1]!r}) with {len(s)} of {self.n} elements ({self.mode})"
        if op == 'pop' and (val(sim.get('vld')) != 1 or val(sim.get('dout')) != exp):
            return f"pop returned {fmt(sim.get('dout'))}, expected {exp} ({self.mode}, N={self.n})"
        if val(sim.get('size')) != len(s) or val(sim.get('empty')) != int(not s) or val(sim.get('full')) != int(len(s) == self.n):
            return (f"{len(s)} of {self.n} elements: size={fmt(sim.get('size'))} empty={fmt(sim.get('empty'))} "
                    f"full={fmt(sim.get('full'))} ({self.mode})")
        if s and val(sim.get('front')) != s[-1]:
            return f"front() is {fmt(sim.get('front'))}, expected {s[-1]} ({self.mode}, N={self.n})"
        return None


# ------------------------------------------------------------------------------------------------
def run_case(case):
    cnt = Counter()
    rnd = random.Random(case['seed'])
    quick = True
    src = None
    m = None
    nontrivial = False
    try:
        if case['k'] == 'fifo2':
            src, m = run_fifo2(case, cnt)
            nontrivial = cnt.get('fifo_elements_transferred', 0) >= 100
        elif case['k'] == 'arrcont':
            src, m = run_arrcont(case, cnt)
            nontrivial = cnt.get('array_elements_compared', 0) >= 100
        else:
            _n[0] += 1
            cname = f"CM{_n[0]}"
            if case['k'] == 'fifo1':
                src = fifo1_src(cname, case['n'], case['dw'])
            else:
                src = stack_src(cname, case['n'], case['mode'], case['dw'])
            try:
                comp = compile_src(src, cname)
            except Rejected as r:
                cnt['rejected'] += 1
                cnt['rejected:' + r.msg[:50]] += 1
                return result(cnt=dict(cnt))
            h = Fifo1(case['n'], case['dw'], comp, rnd) if case['k'] == 'fifo1' else StackH(case['n'], case['mode'], case['dw'], comp)
            h.start()
            stats = {'states': 0}
            if case['dw'] <= 2:
                m, stats = explore.bfs(h, budget=(6000 if case['n'] <= 5 else 3000) * (2 if case.get('scale') else 1), max_depth=40)
                cnt['joint_states'] += stats['states']
                cnt['edges'] += stats['edges']
                cnt['closures_reached'] += int(stats.get('closed', False))
            if m is None:
                m = explore.random_run(h, rnd, 4000 * case.get('scale', 1), choose=boundary_choice if case['k'] == 'fifo1' else None)
            if case['k'] == 'fifo1':
                cnt['fifo_elements_transferred'] += h.model['moved']
            else:
                cnt['stack_ops'] += h.model['ops']
            nontrivial = stats['states'] >= 20 or case['dw'] > 2
    except Unsupported as u:
        return result(cnt={'vsim_unsupported': 1}, inconclusive=f"vsim unsupported: {u}")
    viol = []
    if m:
        viol.append(violation(f"{case['k']}-mismatch", f"{m}; config={ {k: v for k, v in case.items() if k != 'seed'} }", source=src))
    sample = {'config': case, 'counters': dict(cnt)} if case['seed'] % 3 == 0 else None
    return result(sig=digest(case) if nontrivial and not viol else None, viol=viol, cnt=dict(cnt), sample=sample)
