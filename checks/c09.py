"""C09  Compile-time evaluation of primitives agrees with the emitted run-time logic.

Three-way differential, no value model involved:
   D = the operator applied directly to Python-level objects (cohdl's compile-time folding),
   A = vsim execution of the VHDL emitted for the same operator on run-time input ports,
   B = vsim execution of the VHDL emitted when the operands are constants inside a traced context
       (folded by the compiler and emitted as a literal).
A's output ports are declared with D's result type through an exact-width BitVector port and a
sign-revealing Signed[w+1] port, so a type/width disagreement shows up as a rejected design."""
import random
import itertools
from collections import Counter
from vlib import exprgen as eg
from vlib import exprdesign as ed
from vlib.harness import result, digest, violation, load_source, unload, compile_top, Rejected, repo_on_path
from vlib.vsim import Meta, Unsupported, fmt
from checks import c02

PID = 'C09'
RULE = ("every unary form and every binary/compare operator (incl. Python ints on either side) over every ordered "
        "operand-type pair of Bit/BitVector/Unsigned/Signed with widths 1..Wmax (+ division family on 58..64 bit operands); for each operand valuation (all of "
        "them when the operands have <=10 bits, else 200 samples incl. corners) the direct Python-level result "
        "(type, width, value) is compared with the simulated run-time logic, and for up to 6 valuations per "
        "expression with the literal emitted after folding constants inside a traced context.  distinct_nontrivial "
        "= distinct (operator signature, operand types) compared on >=1 valuation where the direct call succeeds.")
ASSUMPTIONS = ["vsim executes the emitted VHDL faithfully", "valuations for which the Python-level operation raises "
               "(division by zero, non-representable integer) are skipped on both sides"]
REQUIRE = {'quick': {'comparisons_runtime': 20000, 'comparisons_folded': 1000, 'designs_accepted': 50},
           'thorough': {'comparisons_runtime': 200000, 'comparisons_folded': 10000, 'designs_accepted': 300}}


def gen_cases(tier, seed):
    wmax = 3 if tier == 'quick' else 5
    ts = c02.types_upto(wmax)
    cases = []
    for ta in ts:
        for tb in ts:
            cases.append({'k': 'pair', 'ta': list(ta), 'tb': list(tb), 'seed': seed})
    for t in c02.types_upto(wmax + 1):
        cases.append({'k': 'unary', 't': list(t), 'seed': seed})
    # division family on operands wider than a float mantissa (Python-level truncdiv/rem used float division)
    for ta, tb in [(('s', 64), ('s', 17)), (('u', 60), ('u', 9)), (('s', 58), ('s', 58)), (('u', 64), ('s', 7))]:
        cases.append({'k': 'pair', 'ta': list(ta), 'tb': list(tb), 'seed': seed, 'only': 'div'})
    if tier == 'thorough':
        wide = [(('u', 8), ('u', 8)), (('s', 8), ('s', 8)), (('u', 33), ('u', 33)), (('s', 33), ('s', 33)),
                (('u', 64), ('u', 17)), (('s', 64), ('s', 17)), (('u', 13), ('u', 5)), (('s', 5), ('s', 13)),
                (('u', 40), ('u', 40)), (('s', 40), ('s', 40))]
        for ta, tb in wide:
            cases.append({'k': 'pair', 'ta': list(ta), 'tb': list(tb), 'seed': seed})
        for t in [('u', 8), ('s', 8), ('u', 33), ('s', 33), ('bv', 16), ('u', 64), ('s', 64)]:
            cases.append({'k': 'unary', 't': list(t), 'seed': seed})
    return cases


_ns = None


def namespace():
    global _ns
    if _ns is None:
        repo_on_path()
        import cohdl
        from cohdl import Bit, BitVector, Unsigned, Signed, Null, Full
        _ns = {'cohdl': cohdl, 'Bit': Bit, 'BitVector': BitVector, 'Unsigned': Unsigned, 'Signed': Signed, 'Null': Null, 'Full': Full}
    return _ns


def make_obj(mvv):
    ns = namespace()
    return eval(eg.lit_src(mvv.kind, mvv.w, mvv.v), ns)


def classify(obj):
    """Python-level result -> (kind, w, raw value) or None when it is not a primitive"""
    ns = namespace()
    cohdl = ns['cohdl']
    if isinstance(obj, bool):
        return ('bool', None, int(obj))
    if isinstance(obj, ns['Signed']):
        return ('s', obj.width, int(obj.unsigned.to_int()))
    if isinstance(obj, ns['Unsigned']):
        return ('u', obj.width, int(obj.to_int()))
    if isinstance(obj, ns['BitVector']):
        return ('bv', obj.width, int(obj.unsigned.to_int()))
    if isinstance(obj, ns['Bit']):
        return ('bit', None, 1 if obj else 0)
    if type(obj).__name__ == '_Boolean':
        return ('bool', None, 1 if obj else 0)
    if isinstance(obj, int):
        return ('int', None, obj)
    return None


def direct(e, env):
    """evaluate expression e directly on Python-level objects; returns classify() tuple, or ('raise', type)"""
    ns = dict(namespace())
    for n, v in env.items():
        ns[n] = make_obj(v)
    try:
        r = eval(eg.render(e, pre=''), ns)
    except (KeyboardInterrupt, SystemExit):
        raise
    except BaseException as ex:      # noqa
        return ('raise', type(ex).__name__)
    return classify(r)


DIVOPS = ('//', '%', 'tdiv', 'rem')


def zero_divisor(e, env):
    """precondition: divisor != 0 (VHDL: run-time error; Python level: returns an arbitrary value)"""
    if isinstance(e, tuple):
        if e and e[0] == 'bin' and e[1] in DIVOPS:
            d = direct(e[3], env)
            if d is not None and d[0] != 'raise' and d[2] == 0:
                return True
        return any(zero_divisor(x, env) for x in e if isinstance(x, (tuple, list)))
    if isinstance(e, list):
        return any(zero_divisor(x, env) for x in e)
    return False


def int_corner(e, env):
    """tagged corner: an int operand that the vector operand's type cannot represent (numeric_std truncates it
    with a warning, the Python level takes it at face value) - nothing is demanded there"""
    from vlib.mv import int_fits
    if isinstance(e, tuple):
        if e and e[0] in ('bin', 'cmp') and e[1] not in ('<<', '>>'):
            for i_, o_ in ((e[2], e[3]), (e[3], e[2])):
                if i_[0] == 'int':
                    d = direct(o_, env)
                    if d is not None and d[0] in ('u', 's') and not int_fits(d[0], d[1], i_[1]):
                        return True
        return any(int_corner(x, env) for x in e if isinstance(x, (tuple, list)))
    if isinstance(e, list):
        return any(int_corner(x, env) for x in e)
    return False


def subst(e, env):
    """replace inputs by typed literals"""
    if isinstance(e, tuple):
        if e and e[0] == 'in':
            v = env[e[1]]
            return ('lit', v.kind, v.w, v.v)
        return tuple(subst(x, env) for x in e)
    if isinstance(e, list):
        return [subst(x, env) for x in e]
    return e


def run_case(case):
    rnd = random.Random(case['seed'])
    cnt = Counter()
    viol = []
    sigs = []
    if case['k'] == 'pair':
        ta, tb = tuple(case['ta']), tuple(case['tb'])
        in_types = {'a': ta, 'b': tb}
        exprs = c02.pair_exprs(ta, tb) + c02.lit_exprs(ta, tb, rnd)
        if ta == tb:
            exprs += c02.int_exprs(ta)
        if tb[0] == 'u' and ta[0] != 'bit':
            exprs += c02.idxrt_exprs(ta, tb[1])
        if case.get('only') == 'div':
            def has_div(e):
                if isinstance(e, tuple) and e and e[0] == 'bin' and e[1] in ('//', '%', 'tdiv', 'rem'):
                    return True
                return isinstance(e, (tuple, list)) and any(has_div(x) for x in e)
            exprs = [e for e in exprs if has_div(e)]
    else:
        t = tuple(case['t'])
        in_types = {'a': t}
        # (select_with is a library function, not an operator/method of the primitive types: C02 covers it)
        exprs = [e for e in c02.unary_exprs(t) if not (e[0] == 'un' and e[1] in ('not',)) and e[0] != 'selw']
    # a left shift by an Unsigned[w] amount has 2**w - 1 extra result bits: beyond w = 6 the bit-object representation of
    # the Python level needs gigabytes (a 25 GB worker was observed for Unsigned[64] << Unsigned[17]); not generated
    def huge_shift(e):
        if isinstance(e, tuple):
            if e and e[0] == 'bin' and e[1] == '<<':
                try:
                    t = eg.static_type(e[3], in_types)
                except eg.Reject:
                    t = None
                if t is not None and t[0] in ('u', 's', 'bv') and (t[1] or 0) > 6:
                    return True
            return any(huge_shift(x) for x in e if isinstance(x, (tuple, list)))
        if isinstance(e, list):
            return any(huge_shift(x) for x in e)
        return False
    n0 = len(exprs)
    exprs = [e for e in exprs if not huge_shift(e)]
    cnt['huge_shift_skipped'] += n0 - len(exprs)
    total_bits = sum((t[1] or 1) for t in in_types.values())
    # (every bit of a Python-level vector is an object: wide operands are sampled more sparsely to keep a shard within minutes)
    vals, exhaustive = ed.valuations(in_types, rnd, exhaustive_bits=10, samples=200 if total_bits <= 24 else 60 if total_bits <= 70 else 30)
    # ---- D: direct results; keep expressions that succeed on at least one valuation with one stable type
    table = []
    kept = []
    types = []
    for e in exprs:
        row = [('raise', 'precondition') if (zero_divisor(e, env) or int_corner(e, env)) else direct(e, env) for env in vals]
        good = [r for r in row if r is not None and r[0] != 'raise']
        if not good:
            cnt['not_in_python_domain'] += 1
            continue
        tys = {(r[0], r[1]) for r in good}
        if len(tys) != 1:
            viol.append(violation('value-dependent-result-type', f"{eg.render(e, pre='')} over {in_types}: {sorted(map(str, tys))}"))
            continue
        t = tys.pop()
        if t[0] == 'int':
            cnt['int_result_skipped'] += 1
            continue
        kept.append(e)
        types.append(t)
        table.append(row)
        cnt['fold_raised'] += sum(1 for r in row if r is None or r[0] == 'raise')
    sample = None
    # ---- A: run-time design, batches of 16
    for i0 in range(0, len(kept), 16):
        chunk = kept[i0:i0 + 16]
        ctypes = types[i0:i0 + 16]
        rows = table[i0:i0 + 16]
        r = run_runtime(in_types, chunk, ctypes, rows, vals, cnt)
        viol.extend(r)
        if sample is None:
            sample = {'inputs': {n: eg.tsrc(t) for n, t in in_types.items()},
                      'expressions': [eg.render(e, pre='') for e in chunk[:4]], 'valuations': len(vals), 'exhaustive': exhaustive}
    # ---- B: folded constants inside a traced context
    folded = []
    for e, t, row in zip(kept, types, table):
        idxs = [i for i, r in enumerate(row) if r is not None and r[0] != 'raise']
        rnd.shuffle(idxs)
        pick = sorted(set(idxs[:4] + [i for i in idxs if all(v.v in (0, (1 << (v.w or 1)) - 1, 1 << ((v.w or 1) - 1)) for v in vals[i].values())][:2]))
        for i in pick:
            folded.append((subst(e, vals[i]), t, row[i], e))
    for i0 in range(0, len(folded), 24):
        viol.extend(run_folded(folded[i0:i0 + 24], cnt))
    if not viol:
        for e in kept:
            sigs.append(digest(sorted(eg.ops_of(e)), sorted(map(repr, in_types.items()))))
    return result(sig=sigs or None, viol=viol, cnt=dict(cnt), sample=sample, evals=max(1, len(kept)))


def run_runtime(in_types, exprs, types, rows, vals, cnt):
    viol = []
    ed._cnt[0] += 1
    cname = f"RT{ed._cnt[0]}"
    src = ed.build_source(cname, in_types, exprs, types, ('conc', 'seq'))
    mod = load_source(src, 'c09a')
    try:
        try:
            comp = compile_top(getattr(mod, cname))
        except Rejected as r:
            if len(exprs) == 1:
                cnt['runtime_rejected'] += 1
                msg = str(r)
                # the Python-level call works on constants of these types but the same operation on signals is
                # rejected: only a disagreement when the rejection is about the result type/width we declared
                if 'width' in msg.lower() or 'assign' in msg.lower() or 'convert' in msg.lower():
                    viol.append(violation('runtime-result-type-differs-from-compile-time',
                                          f"{eg.render(exprs[0], pre='')} over {in_types}: python-level type {types[0]}, design rejected: {msg[:300]}"))
                else:
                    cnt['runtime_rejected:' + r.msg[:50]] += 1
                return viol
            for e, t, row in zip(exprs, types, rows):
                viol.extend(run_runtime(in_types, [e], [t], [row], vals, cnt))
            return viol
        cnt['designs_accepted'] += 1
        try:
            sim = comp.sim()
        except Unsupported as u:
            cnt['vsim_unsupported'] += 1
            return viol
        for kind, det in sim.issues:
            cnt['vcheck:' + kind] += 1
        plans = [ed.out_plan(i, t) for i, t in enumerate(types)]
        bad = set()
        for vi, env in enumerate(vals):
            for n, v in env.items():
                sim.set(n, v.v)
            sim.settle()
            sim.clock()
            for i, e in enumerate(exprs):
                if i in bad:
                    continue
                d = rows[i][vi]
                if d is None or d[0] == 'raise':
                    continue
                mvv = eg.MV(d[0], d[1], d[2])
                for suf, pt, wrap, mode in plans[i]:
                    want = ed.expected_port(mvv, mode)
                    for cx, pre in (('conc', 'c'), ('seq', 'q')):
                        got = sim.get(f"{pre}{suf}{i}")
                        cnt['comparisons_runtime'] += 1
                        if got.__class__ is Meta or got != want:
                            bad.add(i)
                            viol.append(violation(
                                'compile-time-vs-run-time-mismatch',
                                f"{eg.render(e, pre='')} with { {n: (v.kind, v.w, v.v) for n, v in env.items()} }: "
                                f"python-level {d} but emitted logic [{cx}, {pt}] gives {fmt(got)} (expected {want})",
                                ops=sorted(set(eg.ops_of(e))), in_types=in_types))
                            break
                    if i in bad:
                        break
        return viol
    finally:
        unload(mod)


def run_folded(items, cnt):
    """items: [(const_expr, type, direct_result, original_expr)]"""
    viol = []
    exprs = [it[0] for it in items]
    types = [it[1] for it in items]
    ed._cnt[0] += 1
    cname = f"FD{ed._cnt[0]}"
    src = ed.build_source(cname, {}, exprs, types, ('conc', 'seq'))
    mod = load_source(src, 'c09b')
    try:
        try:
            comp = compile_top(getattr(mod, cname))
        except Rejected as r:
            if len(items) == 1:
                cnt['fold_rejected'] += 1
                cnt['fold_rejected:' + r.msg[:50]] += 1
                return viol
            for it in items:
                viol.extend(run_folded([it], cnt))
            return viol
        cnt['designs_accepted'] += 1
        try:
            sim = comp.sim()
        except Unsupported:
            cnt['vsim_unsupported'] += 1
            return viol
        for kind, det in sim.issues:
            cnt['vcheck:' + kind] += 1
        sim.settle()
        sim.clock()
        for i, (ce, t, d, e) in enumerate(items):
            mvv = eg.MV(d[0], d[1], d[2])
            for suf, pt, wrap, mode in ed.out_plan(i, t):
                want = ed.expected_port(mvv, mode)
                done = False
                for cx, pre in (('conc', 'c'), ('seq', 'q')):
                    got = sim.get(f"{pre}{suf}{i}")
                    cnt['comparisons_folded'] += 1
                    if got.__class__ is Meta or got != want:
                        viol.append(violation(
                            'folded-constant-mismatch',
                            f"{eg.render(ce, pre='')}: python-level {d} but the literal emitted in a {cx} context [{pt}] is {fmt(got)} (expected {want})",
                            ops=sorted(set(eg.ops_of(e)))))
                        done = True
                        break
                if done:
                    break
        return viol
    finally:
        unload(mod)
