"""C18  std combinational helpers compute their mathematical definition.

Table driven: every helper of the property statement is wrapped in a compiled concurrent entity
(inputs on ports) and additionally evaluated with constant operands inside a context; vsim executes
the emitted logic for all input values (widths <= 10 bits in total, sampled above) and the result is
compared with a one-line Python definition on integers.  BitwiseCrc is run as a clocked design, fed
one or several bits per step, against bitwise polynomial division."""
import random
import itertools
from collections import Counter
from vlib import progen as pg
from vlib.harness import result, digest, violation, load_source, unload, compile_top, Rejected
from vlib.vsim import Meta, Unsupported, fmt

PID = 'C18'
RULE = ("helpers x parameters: count_set/clear_bits (w 1..9,13,16 x batch 1..7), count_leading/trailing_zeros/ones, is_one_hot, "
        "one_hot, parity, reverse_bits (w 1..9), rol/ror (all n<w), lshift/rshift_fill (Bit and vector fills), repeat, stretch, "
        "leftpad/rightpad/pad (Null/Full/Bit fills), concat (2..4 parts), apply_mask / Mask, batched / select_batch, minimum, "
        "maximum, min/max_element, min/max_index (lists of 1..6 elements, ties), count (value / check), clamp, "
        "(keyed with an idempotent and a non-idempotent key), both bit counters in one design, count_elements_while/until, choose_first, select, cond, binary_fold (left/right), batched_fold (batch 2..4), "
        "BitwiseCrc (3 polynomials x 1..4 bits per step).  All input values when the inputs have <= 10 bits, else 300 samples "
        "incl. corners; plus up to 6 constant-operand instances per case.  distinct_nontrivial = cases compared on >= 8 valuations.")
ASSUMPTIONS = ["vsim executes the emitted VHDL faithfully", "reference definitions are the mathematical ones named in C18 / the .pyi docs"]
REQUIRE = {'quick': {'comparisons': 20000, 'helpers_covered': 35}, 'thorough': {'comparisons': 300000, 'helpers_covered': 35}}
_n = [0]


def popcount(x):
    return bin(x).count('1')


def clz(x, w):
    return w - x.bit_length()


def ctz(x, w):
    return w if x == 0 else (x & -x).bit_length() - 1


def rev(x, w):
    return int(format(x, f'0{w}b')[::-1], 2)


def rolv(x, n, w):
    n %= w
    return ((x << n) | (x >> (w - n))) & ((1 << w) - 1)


def M(w):
    return (1 << w) - 1


def cases_for(tier):
    """list of dicts: name, ins {port: (kind, w)}, expr (source over self.<port>), out (kind, w), ref(**vals) -> int|None"""
    C = []

    def add(name, ins, expr, out, ref, pre=None):
        C.append({'name': name, 'ins': ins, 'expr': expr, 'out': out, 'ref': ref, 'pre': pre})
    ws = list(range(1, 10)) + ([11, 13, 16, 24] if tier == 'thorough' else [13])
    for w in ws:
        for b in ([1, 2, 3, 6] if tier == 'quick' else range(1, 8)):
            add('count_set_bits', {'a': ('bv', w)}, f"std.count_set_bits(self.a, batch_size={b})", ('u', 8), lambda a: popcount(a))
            add('count_clear_bits', {'a': ('bv', w)}, f"std.count_clear_bits(self.a, batch_size={b})", ('u', 8), lambda a, w=w: w - popcount(a))
        if w in (3, 6, 7, 9, 13):
            # both counters in one design (and therefore one process), same batch width, in either order of first use
            b = 3 if w != 6 else 6
            add('count_set_bits+count_clear_bits', {'a': ('bv', w)},
                f"(std.count_set_bits(self.a, batch_size={b}) > std.count_clear_bits(self.a, batch_size={b}))", ('bit', None),
                lambda a, w=w: int(popcount(a) > w - popcount(a)))
            add('count_clear_bits+count_set_bits', {'a': ('bv', w)},
                f"(std.count_clear_bits(self.a, batch_size={b}) >= std.count_set_bits(self.a, batch_size={b}))", ('bit', None),
                lambda a, w=w: int(w - popcount(a) >= popcount(a)))
        add('count_leading_zeros', {'a': ('bv', w)}, "std.count_leading_zeros(self.a)", ('u', 8), lambda a, w=w: clz(a, w))
        add('count_leading_ones', {'a': ('bv', w)}, "std.count_leading_ones(self.a)", ('u', 8), lambda a, w=w: clz(~a & M(w), w))
        add('count_trailing_zeros', {'a': ('bv', w)}, "std.count_trailing_zeros(self.a)", ('u', 8), lambda a, w=w: ctz(a, w))
        add('count_trailing_ones', {'a': ('bv', w)}, "std.count_trailing_ones(self.a)", ('u', 8), lambda a, w=w: ctz(~a & M(w), w))
        add('is_one_hot', {'a': ('bv', w)}, "std.is_one_hot(self.a)", ('bit', None), lambda a: int(popcount(a) == 1))
        add('reverse_bits', {'a': ('bv', w)}, "std.reverse_bits(self.a)", ('bv', w), lambda a, w=w: rev(a, w))
        if w <= 9:
            for n in range(0, w):
                add('rol', {'a': ('bv', w)}, f"std.rol(self.a, {n})", ('bv', w), lambda a, n=n, w=w: rolv(a, n, w))
                add('ror', {'a': ('bv', w)}, f"std.ror(self.a, {n})", ('bv', w), lambda a, n=n, w=w: rolv(a, w - n, w))
    for w in (2, 3, 4, 5, 8):
        pw = max(1, (w - 1).bit_length())
        add('one_hot', {'p': ('u', pw)}, f"std.one_hot({w}, self.p)", ('bv', w), lambda p, w=w: (1 << p), pre=lambda p, w=w: p < w)
        add('one_hot', {'p': ('u', pw)}, f"std.one_hot({w}, {w - 1})", ('bv', w), lambda p, w=w: 1 << (w - 1))
    for w in (3, 4, 6):
        add('lshift_fill', {'a': ('bv', w), 'f': ('bit', None)}, "std.lshift_fill(self.a, self.f)", ('bv', w), lambda a, f, w=w: ((a << 1) | f) & M(w))
        add('rshift_fill', {'a': ('bv', w), 'f': ('bit', None)}, "std.rshift_fill(self.a, self.f)", ('bv', w), lambda a, f, w=w: ((f << w) | a) >> 1)
        for k in (1, 2, w):
            add('lshift_fill', {'a': ('bv', w), 'f': ('bv', k)}, "std.lshift_fill(self.a, self.f)", ('bv', w), lambda a, f, w=w, k=k: ((a << k) | f) & M(w))
            add('rshift_fill', {'a': ('bv', w), 'f': ('bv', k)}, "std.rshift_fill(self.a, self.f)", ('bv', w), lambda a, f, w=w, k=k: ((f << w) | a) >> k)
    for w in (1, 2, 3):
        for t in (1, 2, 3):
            add('repeat', {'a': ('bv', w)}, f"std.repeat(self.a, {t})", ('bv', w * t), lambda a, w=w, t=t: sum(a << (i * w) for i in range(t)))
            add('stretch', {'a': ('bv', w)}, f"std.stretch(self.a, {t})", ('bv', w * t),
                lambda a, w=w, t=t: sum((M(t) if (a >> i) & 1 else 0) << (i * t) for i in range(w)))
    add('repeat', {'f': ('bit', None)}, "std.repeat(self.f, 3)", ('bv', 3), lambda f: 7 if f else 0)
    add('stretch', {'f': ('bit', None)}, "std.stretch(self.f, 2)", ('bv', 2), lambda f: 3 if f else 0)
    for w, W in ((3, 3), (3, 5), (1, 4), (4, 7)):
        add('leftpad', {'a': ('bv', w)}, f"std.leftpad(self.a, {W})", ('bv', W), lambda a: a)
        add('rightpad', {'a': ('bv', w)}, f"std.rightpad(self.a, {W})", ('bv', W), lambda a, w=w, W=W: a << (W - w))
        add('leftpad', {'a': ('bv', w), 'f': ('bit', None)}, f"std.leftpad(self.a, {W}, self.f)", ('bv', W),
            lambda a, f, w=w, W=W: a | ((M(W - w) if f else 0) << w))
        add('rightpad', {'a': ('bv', w)}, f"std.rightpad(self.a, {W}, Full)", ('bv', W), lambda a, w=w, W=W: (a << (W - w)) | M(W - w))
    for w, l, r in ((3, 1, 2), (2, 0, 3), (4, 2, 0), (1, 1, 1)):
        add('pad', {'a': ('bv', w)}, f"std.pad(self.a, left={l}, right={r})", ('bv', w + l + r), lambda a, r=r: a << r)
        add('pad', {'a': ('bv', w), 'f': ('bit', None)}, f"std.pad(self.a, left={l}, right={r}, fill=self.f)", ('bv', w + l + r),
            lambda a, f, w=w, l=l, r=r: (a << r) | ((M(r) if f else 0)) | ((M(l) if f else 0) << (w + r)))
    add('concat', {'a': ('bv', 2), 'b': ('u', 3)}, "std.concat(self.a, self.b)", ('bv', 5), lambda a, b: (a << 3) | b)
    add('concat', {'a': ('bv', 2), 'b': ('u', 3), 'f': ('bit', None)}, "std.concat(self.a, self.f, self.b)", ('bv', 6), lambda a, b, f: (a << 4) | (f << 3) | b)
    add('concat', {'a': ('bv', 2), 'b': ('s', 2), 'f': ('bit', None)}, "std.concat(self.f, self.a, self.b, self.a)", ('bv', 7),
        lambda a, b, f: (f << 6) | (a << 4) | (b << 2) | a)
    add('concat', {'f': ('bit', None)}, "std.concat(self.f)", ('bv', 1), lambda f: f)
    for w in (1, 3, 4):
        add('apply_mask', {'po': ('bv', w), 'pn': ('bv', w), 'pm': ('bv', w)}, "std.apply_mask(self.po, self.pn, self.pm)", ('bv', w),
            lambda po, pn, pm: (pn & pm) | (po & ~pm))
        add('Mask', {'po': ('bv', w), 'pn': ('bv', w), 'pm': ('bv', w)}, "std.Mask(self.pm).apply(self.po, self.pn)", ('bv', w),
            lambda po, pn, pm: (pn & pm) | (po & ~pm))
        add('Mask', {'pm': ('bv', w)}, f"std.Mask(self.pm).as_vector({w})", ('bv', w), lambda pm: pm)
        add('Mask', {'po': ('bv', w), 'pn': ('bv', w)}, "std.Mask(Full).apply(self.po, self.pn)", ('bv', w), lambda po, pn: pn)
    for W, n in ((6, 2), (6, 3), (8, 4), (4, 1)):
        for i in range(W // n):
            add('batched', {'a': ('bv', W)}, f"std.batched(self.a, {n})[{i}]", ('bv', n), lambda a, n=n, i=i: (a >> (i * n)) & M(n))
        add('select_batch', {'a': ('bv', W), 's': ('bv', W // n)}, f"std.select_batch(self.a, self.s, {n})", ('bv', n),
            lambda a, s, n=n, W=W: [(a >> (i * n)) & M(n) for i in range(W // n) if (s >> i) & 1][0],
            pre=lambda a, s: popcount(s) == 1)
    add('batched', {'a': ('bv', 7)}, "std.batched(self.a, 3, allow_partial=True)[2]", ('bv', 1), lambda a: (a >> 6) & 1)
    # ---- list helpers over Unsigned[2] / Unsigned[3] elements
    for k in (1, 2, 3, 4, 6):
        ew = 2 if k >= 4 else 3
        ins = {f"e{i}": ('u', ew) for i in range(k)}
        lst = '[' + ', '.join(f"self.e{i}" for i in range(k)) + ']'
        args = ', '.join(f"self.e{i}" for i in range(k))

        L = (lambda k_: (lambda vals: [vals[f"e{i}"] for i in range(k_)]))(k)
        add('minimum', ins, f"std.minimum({lst})", ('u', ew), lambda k=k, L=L, **v: min(L(v)))
        add('maximum', ins, f"std.maximum({lst})", ('u', ew), lambda k=k, L=L, **v: max(L(v)))
        if k >= 2:
            add('minimum', ins, f"std.minimum({args})", ('u', ew), lambda k=k, L=L, **v: min(L(v)))
            add('maximum', ins, f"std.maximum({args})", ('u', ew), lambda k=k, L=L, **v: max(L(v)))
        add('min_index', ins, f"std.min_index({lst})", ('u', 8), lambda k=k, L=L, **v: L(v).index(min(L(v))))
        add('max_index', ins, f"std.max_index({lst})", ('u', 8), lambda k=k, L=L, **v: L(v).index(max(L(v))))
        add('min_element', ins, f"std.min_element({lst})[0]", ('u', 8), lambda k=k, L=L, **v: L(v).index(min(L(v))))
        add('min_element', ins, f"std.min_element({lst})[1]", ('u', ew), lambda k=k, L=L, **v: min(L(v)))
        add('max_element', ins, f"std.max_element({lst})[0]", ('u', 8), lambda k=k, L=L, **v: L(v).index(max(L(v))))
        add('max_element', ins, f"std.max_element({lst})[1]", ('u', ew), lambda k=k, L=L, **v: max(L(v)))
        # keyed variants: the winner's identity is observable through the low bit only
        add('min_index', ins, f"std.min_index({lst}, key=key_hi{ew})", ('u', 8),
            lambda k=k, L=L, **v: [x >> 1 for x in L(v)].index(min(x >> 1 for x in L(v))))
        add('max_element', ins, f"std.max_element({lst}, key=key_hi{ew})[1]", ('u', ew),
            lambda k=k, L=L, **v: L(v)[[x >> 1 for x in L(v)].index(max(x >> 1 for x in L(v)))])
        add('minimum', ins, f"std.minimum({lst}, key=key_hi{ew})", ('u', ew),
            lambda k=k, L=L, **v: L(v)[[x >> 1 for x in L(v)].index(min(x >> 1 for x in L(v)))])
        # a key that is not idempotent and keeps the element type (applying it twice is the identity): every keyed helper
        KI = (lambda ew_: (lambda xs: [~x & M(ew_) for x in xs]))(ew)
        add('min_index', ins, f"std.min_index({lst}, key=key_inv)", ('u', 8), lambda k=k, L=L, KI=KI, **v: KI(L(v)).index(min(KI(L(v)))))
        add('max_index', ins, f"std.max_index({lst}, key=key_inv)", ('u', 8), lambda k=k, L=L, KI=KI, **v: KI(L(v)).index(max(KI(L(v)))))
        add('min_element', ins, f"std.min_element({lst}, key=key_inv)[0]", ('u', 8), lambda k=k, L=L, KI=KI, **v: KI(L(v)).index(min(KI(L(v)))))
        add('max_element', ins, f"std.max_element({lst}, key=key_inv)[0]", ('u', 8), lambda k=k, L=L, KI=KI, **v: KI(L(v)).index(max(KI(L(v)))))
        add('maximum', ins, f"std.maximum({lst}, key=key_inv)", ('u', ew), lambda k=k, L=L, KI=KI, **v: L(v)[KI(L(v)).index(max(KI(L(v))))])
        add('minimum', ins, f"std.minimum({lst}, key=key_inv)", ('u', ew), lambda k=k, L=L, KI=KI, **v: L(v)[KI(L(v)).index(min(KI(L(v))))])
        add('max_index', ins, f"std.max_index({lst}, key=key_hi{ew})", ('u', 8),
            lambda k=k, L=L, **v: [x >> 1 for x in L(v)].index(max(x >> 1 for x in L(v))))
        add('count', ins, f"std.count({lst}, 1)", ('u', 8), lambda k=k, L=L, **v: L(v).count(1))
        add('count', ins, f"std.count({lst}, check=lambda q: q[0])", ('u', 8), lambda k=k, L=L, **v: sum(x & 1 for x in L(v)))
        add('count_elements_while', ins, f"std.count_elements_while({lst}, 1)", ('u', 8),
            lambda k=k, L=L, **v: next((i for i, x in enumerate(L(v)) if x != 1), k))
        add('count_elements_until', ins, f"std.count_elements_until({lst}, 2)", ('u', 8),
            lambda k=k, L=L, **v: next((i for i, x in enumerate(L(v)) if x == 2), k))
        add('count_elements_while', ins, f"std.count_elements_while({lst}, cond=lambda q: q[0])", ('u', 8),
            lambda k=k, L=L, **v: next((i for i, x in enumerate(L(v)) if not x & 1), k))
        add('count_elements_until', ins, f"std.count_elements_until({lst}, cond=lambda q: q > 1)", ('u', 8),
            lambda k=k, L=L, **v: next((i for i, x in enumerate(L(v)) if x > 1), k))
        if k >= 2:
            add('binary_fold', ins, f"std.binary_fold(lambda p, q: p - q, {lst})", ('u', ew),
                lambda k=k, ew=ew, L=L, **v: __import__('functools').reduce(lambda p, q: (p - q) & M(ew), L(v)))
            add('binary_fold', ins, f"std.binary_fold(lambda p, q: p - q, {lst}, right_fold=True)", ('u', ew),
                lambda k=k, ew=ew, L=L, **v: __import__('functools').reduce(lambda acc, x: (x - acc) & M(ew), reversed(L(v)[:-1]), L(v)[-1]))
            for bs in (2, 3, 4):
                add('batched_fold', ins, f"std.batched_fold(lambda p, q: p ^ q, {lst}, batch_size={bs})", ('u', ew),
                    lambda k=k, L=L, **v: __import__('functools').reduce(lambda p, q: p ^ q, L(v)))
                add('batched_fold', ins, f"std.batched_fold(lambda p, q: p + q, {lst}, batch_size={bs})", ('u', ew),
                    lambda k=k, ew=ew, L=L, **v: sum(L(v)) & M(ew))
    add('clamp', {'x': ('u', 4)}, "std.clamp(self.x, 3, 11)", ('u', 4), lambda x: min(max(x, 3), 11))
    add('clamp', {'x': ('u', 3), 'lo': ('u', 3), 'hi': ('u', 3)}, "std.clamp(self.x, self.lo, self.hi)", ('u', 3),
        lambda x, lo, hi: min(max(x, lo), hi), pre=lambda x, lo, hi: lo <= hi)
    add('clamp', {'x': ('s', 4)}, "std.clamp(self.x, -3, 5)", ('s', 4), lambda x: (min(max(x - 16 if x & 8 else x, -3), 5)) & 15)
    add('choose_first', {'c0': ('bit', None), 'c1': ('bit', None), 'c2': ('bit', None), 'x': ('u', 2)},
        "std.choose_first[Unsigned[2]]((self.c0, Unsigned[2](1)), (self.c1, self.x), (self.c2, Unsigned[2](3)), default=Unsigned[2](0))", ('u', 2),
        lambda c0, c1, c2, x: 1 if c0 else x if c1 else 3 if c2 else 0)
    add('select', {'s': ('u', 2), 'x': ('u', 3)}, "std.select[Unsigned[3]](self.s, {0: self.x, 1: Unsigned[3](5), 2: ~self.x}, default=Unsigned[3](7))", ('u', 3),
        lambda s, x: [x, 5, ~x & 7, 7][s])
    add('cond', {'c0': ('bit', None), 'x': ('u', 3), 'y': ('u', 3)}, "std.cond[Unsigned[3]](self.c0, self.x, self.y)", ('u', 3),
        lambda c0, x, y: x if c0 else y)
    return C


def gen_cases(tier, seed):
    n = len(cases_for(tier))
    cases = [{'k': 'helper', 'i': i, 'seed': seed * 17 + i, 'tier': tier} for i in range(n)]
    for poly, w in (('011', 3), ('10011', 5), ('00000111', 8)):
        for per in (1, 2, 3, 4):
            for inv in (False, True):
                cases.append({'k': 'crc', 'poly': poly, 'per': per, 'inv': inv, 'init': (per * 5) % (1 << w), 'seed': seed * 19 + per})
    return cases


def tsrc(t):
    return pg.tsrc(*t)


def value_space(ins, rnd, thorough=False):
    names = list(ins)
    bits = sum(1 if ins[n][0] == 'bit' else ins[n][1] for n in names)
    doms = [range(2) if ins[n][0] == 'bit' else range(1 << ins[n][1]) for n in names]
    if bits <= (12 if thorough else 10):
        return [dict(zip(names, c)) for c in itertools.product(*doms)]
    out = []
    for n_ in range(1500 if thorough else 300):
        d = {}
        for n, dom in zip(names, doms):
            hi = len(dom) - 1
            d[n] = rnd.choice([0, hi, 1, hi >> 1, rnd.randrange(hi + 1), rnd.randrange(hi + 1)])
        out.append(d)
    return out


def lit(t, v):
    k, w = t
    if k == 'bit':
        return f"Bit({v})"
    if k == 'bv':
        return f"BitVector[{w}]('{v:0{w}b}')"
    if k == 'u':
        return f"Unsigned[{w}]({v})"
    return f"Signed[{w}]({v - (1 << w) if v >> (w - 1) else v})"


def run_helper(case):
    spec = cases_for(case['tier'])[case['i']]
    rnd = random.Random(case['seed'])
    cnt = Counter()
    _n[0] += 1
    cname = f"HP{_n[0]}"
    ins, expr, out = spec['ins'], spec['expr'], spec['out']
    vals = value_space(ins, rnd, thorough=case.get('tier') == 'thorough')
    if spec['pre']:
        vals = [v for v in vals if spec['pre'](**v)]
    consts = rnd.sample(vals, min(6, len(vals)))
    KEYS = "\ndef key_hi2(q):\n    return q[1:1].unsigned\n\ndef key_hi3(q):\n    return q[2:1].unsigned\n\ndef key_inv(q):\n    return ~q\n\n"
    L = [pg.HEADER + KEYS, f"class {cname}(Entity):"]
    for n, t in ins.items():
        L.append(f"    {n} = Port.input({tsrc(t)})")
    L.append(f"    o = Port.output({tsrc(out)})")
    for j in range(len(consts)):
        L.append(f"    k{j} = Port.output({tsrc(out)})")
    L += ["    def architecture(self):", "        @std.concurrent", "        def logic():", f"            self.o <<= {expr}"]
    src_rt = '\n'.join(L) + '\n'
    # constant-operand variant: every self.<port> replaced by a typed literal (a separate entity: a rejection of the
    # constant form must not hide the run-time form)
    L2 = [pg.HEADER + KEYS, f"class {cname}K(Entity):"]
    for j in range(len(consts)):
        L2.append(f"    k{j} = Port.output({tsrc(out)})")
    L2 += ["    def architecture(self):", "        @std.concurrent", "        def logic():"]
    import re
    for j, cv in enumerate(consts):
        e = re.sub(r"self\.([a-z][a-z0-9]*)\b", lambda m: lit(ins[m.group(1)], cv[m.group(1)]), expr)
        L2.append(f"            self.k{j} <<= {e}")
    src_k = '\n'.join(L2) + '\n'
    viol = []
    nontrivial = False
    mod = load_source(src_rt.replace(''.join(f"    k{j} = Port.output({tsrc(out)})\n" for j in range(len(consts))), ''), 'c18')
    try:
        try:
            comp = compile_top(getattr(mod, cname))
        except Rejected as r:
            cnt['rejected_runtime'] += 1
            cnt[f"rejected_runtime:{spec['name']}"] += 1
            comp = None
        if comp is not None:
            try:
                sim = comp.sim(init={n: 0 for n in ins})
            except Unsupported as u:
                return result(cnt={'vsim_unsupported': 1}, inconclusive=f"vsim unsupported: {u}")
            ncmp = 0
            for v in vals:
                for n, x in v.items():
                    sim.set(n, x)
                sim.settle()
                want = spec['ref'](**v)
                got = sim.get('o')
                ncmp += 1
                if got.__class__ is Meta or got != want:
                    viol.append(violation(f"helper-differs-from-definition:{spec['name']}",
                                          f"{expr} with {v}: emitted logic gives {fmt(got)}, the definition gives {want}", source=src_rt))
                    break
            cnt['comparisons'] += ncmp
            cnt[f"helper:{spec['name']}"] += 1
            nontrivial = ncmp >= 8 or len(vals) == ncmp
    finally:
        unload(mod)
    if consts and not viol:
        mod = load_source(src_k, 'c18k')
        try:
            try:
                compk = compile_top(getattr(mod, cname + 'K'))
                simk = compk.sim()
                simk.settle()
                for j, cv in enumerate(consts):
                    want = spec['ref'](**cv)
                    got = simk.get(f"k{j}")
                    cnt['comparisons'] += 1
                    cnt['constant_operand_comparisons'] += 1
                    if got.__class__ is Meta or got != want:
                        viol.append(violation(f"helper-differs-from-definition:{spec['name']}:constant-operands",
                                              f"{expr} with constant operands {cv}: emitted {fmt(got)}, the definition gives {want}", source=src_k))
                        break
            except Rejected as r:
                cnt['rejected_constant_form'] += 1
                cnt[f"rejected_constant_form:{spec['name']}"] += 1
            except Unsupported:
                cnt['vsim_unsupported'] += 1
        finally:
            unload(mod)
    sample = {'helper': spec['name'], 'expr': expr, 'inputs': {n: tsrc(t) for n, t in ins.items()}, 'valuations': len(vals)} if case['i'] % 40 == 0 else None
    return result(sig=digest(spec['name'], expr, sorted(ins.items())) if nontrivial and not viol else None, viol=viol, cnt=dict(cnt), sample=sample)


def crc_ref(bits, poly, w, init):
    reg = init
    m = (1 << w) - 1
    for b in bits:
        fb = ((reg >> (w - 1)) & 1) ^ b
        reg = (reg << 1) & m
        if fb:
            reg ^= poly
    return reg


def run_crc(case):
    rnd = random.Random(case['seed'])
    cnt = Counter()
    w = len(case['poly'])
    per = case['per']
    _n[0] += 1
    cname = f"CR{_n[0]}"
    upd = "crc.update(self.d[0])" if per == 1 and rnd.random() < 0.5 else \
        f"crc.update_multiple({', '.join(f'self.d[{per - 1 - i}]' for i in range(per))})"
    src = pg.HEADER + f"""
class {cname}(Entity):
    clk = Port.input(Bit)
    clr = Port.input(Bit)
    en = Port.input(Bit)
    d = Port.input(BitVector[{per}])
    o = Port.output(BitVector[{w}])
    def architecture(self):
        crc = std.crc.BitwiseCrc(BitVector[{w}]('{case['poly']}'), initial_value=BitVector[{w}]('{case['init']:0{w}b}'), invert_result={case['inv']})
        @std.concurrent
        def res():
            self.o <<= crc.result()
        @std.sequential(std.Clock(self.clk))
        def proc():
            if self.clr:
                crc.clear()
            elif self.en:
                {upd}
"""
    mod = load_source(src, 'c18c')
    try:
        try:
            comp = compile_top(getattr(mod, cname))
        except Rejected as r:
            cnt['rejected_runtime'] += 1
            cnt['rejected_runtime:crc'] += 1
            return result(cnt=dict(cnt))
    finally:
        unload(mod)
    sim = comp.sim(init={'clk': 0, 'clr': 1, 'en': 0, 'd': 0})
    sim.clock()
    poly = int(case['poly'], 2)
    bits = []
    viol = []
    for t in range(400):
        clr = int(rnd.random() < 0.03)
        en = int(rnd.random() < 0.8)
        d = rnd.randrange(1 << per)
        sim.set('clr', clr); sim.set('en', en); sim.set('d', d)
        sim.clock()
        if clr:
            bits = []
        elif en:
            bits += [(d >> (per - 1 - i)) & 1 for i in range(per)]     # the first argument is processed first
        want = crc_ref(bits, poly, w, case['init'])
        if case['inv']:
            want ^= (1 << w) - 1
        got = sim.get('o')
        cnt['comparisons'] += 1
        if got.__class__ is Meta or got != want:
            viol.append(violation('helper-differs-from-definition:BitwiseCrc',
                                  f"poly {case['poly']} {per} bit(s)/step after {len(bits)} bits: register {fmt(got)}, polynomial division gives {want:0{w}b}",
                                  source=src))
            break
    cnt['helper:BitwiseCrc'] += 1
    return result(sig=digest('crc', case['poly'], per, case['inv']) if not viol else None, viol=viol, cnt=dict(cnt))


def run_case(case):
    if case['k'] == 'helper':
        return run_helper(case)
    return run_crc(case)


def finalize(cnt, tier):
    helpers = sorted(k[7:] for k in cnt if k.startswith('helper:'))
    cnt['helpers_covered'] = len(helpers)
    return {'helpers_exercised': helpers}
