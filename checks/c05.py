"""C05  Type conversions on assignment preserve the value or are rejected.

Full matrix  source type x target type x assignment form x source qualifier.  The decision table of
vlib.mv.convert is transcribed from the property statement: must-reject classes (narrowing,
Signed<->Unsigned without view, width-mismatched BitVector, Bit<->vector, non-representable integer
literal) and the value rule of every accepted class.  Accepted designs are executed by vsim over all
source values; a compiled must-reject case, a wrong value, or ill-typed emitted VHDL is a violation."""
import random
import itertools
from collections import Counter
from vlib import mv
from vlib.mv import MV, Reject
from vlib import progen as pg
from vlib.harness import result, digest, violation, load_source, unload, compile_top, Rejected
from vlib.vsim import Meta, Uninit, Unsupported, fmt

PID = 'C05'
RULE = ("matrix: source in {Bit, bool, BitVector/Unsigned/Signed[1..W]} as {input port, signal, variable, temporary, typed "
        "constant} + literals {ints in/out of range, Null, Full, True/False, bit strings}; target in {Bit, BitVector/"
        "Unsigned/Signed[1..W+1]}; form in {<<= (clocked), <<= (concurrent), .next, @= , .value, ^=, .push, slice target, "
        "element target, Variable[T](src) / Signal[T](src) local init (plain, delayed_init, with name / maybe_uninitialized), Array list "
        "initialiser element, Array element target, sub-entity input connection, sub-entity "
        "output connection, if-expression merge, function-return merge}.  Accepted designs run over all source values.  "
        "distinct_nontrivial = distinct (source type, qualifier, target type, form) whose verdict was decided "
        "(rejected where required, or accepted and compared on every source value).")
ASSUMPTIONS = ["vsim executes the emitted VHDL faithfully",
               "conversion classes on which the property statement is silent (e.g. integer literal -> BitVector, "
               "vector -> bool) are only counted"]
REQUIRE = {'quick': {'must_reject_rejected': 500, 'accepted_compared': 300, 'comparisons': 3000},
           'thorough': {'must_reject_rejected': 2000, 'accepted_compared': 1500, 'comparisons': 20000}}

FORMS = ['seq', 'conc', 'next', 'var', 'value', 'push', 'pushattr', 'slice', 'elem', 'varinit', 'siginit',
         'port_in', 'port_out', 'ifexp', 'retmerge', 'ifexp_full', 'ifexp_null', 'full_ifexp', 'retmerge_full',
         'viewtgt_a', 'viewtgt_b', 'viewtgt_conc', 'arrinit_var', 'arrinit_sig', 'arrelem', 'arrelem_conc',
         'siginit_delayed', 'varinit_attr', 'siginit_attr']
QUALS = ['port', 'signal', 'variable', 'temp', 'const']
LITS = [('int', -5), ('int', -1), ('int', 0), ('int', 1), ('int', 3), ('int', 7), ('int', 8), ('int', 16),
        ('null', None), ('full', None), ('pybool', True), ('pybool', False), ('str', '101'), ('str', '01'), ('str', '1')]


def types(wmax):
    ts = [('bit', None), ('bool', None)]
    for k in ('bv', 'u', 's'):
        for w in range(1, wmax + 1):
            ts.append((k, w))
    return ts


def gen_cases(tier, seed):
    ws = 3 if tier == 'quick' else 4
    src_types = types(ws)
    tgt_types = [t for t in types(ws + 1) if t[0] != 'bool']
    cases = []
    for tt in tgt_types:
        for f in FORMS:
            if f == 'slice' and tt[0] != 'bv':
                continue
            if f == 'elem' and tt[0] != 'bit':
                continue
            for st in src_types:
                for q in QUALS:
                    if st[0] == 'bool' and q in ('port', 'signal', 'variable', 'const'):
                        continue
                    cases.append({'st': list(st), 'q': q, 'tt': list(tt), 'f': f})
            for lk, lv in LITS:
                cases.append({'st': [lk, lv], 'q': 'literal', 'tt': list(tt), 'f': f})
    if tier == 'quick':
        rnd = random.Random(seed)
        rnd.shuffle(cases)
        cases = cases[:5000]
    return cases


def tsrc(t):
    return pg.tsrc(*t)


def source_values(st):
    k, w = st
    if k in ('bit', 'bool'):
        return [MV(k, None, 0), MV(k, None, 1)]
    return [MV(k, w, v) for v in range(1 << w)]


def expected(srcval, case):
    """MV expected on the observation port, None = silent class, raises Reject = must-reject"""
    tt = tuple(case['tt'])
    if case['st'][0] == 'pybool' and tt[0] in mv.VECK:
        srcval = mv.INT(int(srcval.v))     # Python's True / False are the integers 1 / 0
    if case['st'][0] == 'str' and tt[0] == 'bit' and len(case['st'][1]) == 1:
        return MV('bit', None, int(case['st'][1]))      # a one character string is a Bit literal (Bit('1') is documented)
    return mv.convert(srcval, tt[0], tt[1])


def literal_value(st):
    lk, lv = st
    if lk == 'int':
        return mv.INT(lv), str(lv) if lv >= 0 else f"({lv})"
    if lk == 'pybool':
        return mv.BOOL(lv), str(lv)       # (for vector targets a Python bool is the integer literal 0 / 1, see expected())
    if lk == 'str':
        return mv.BV(len(lv), int(lv, 2)), repr(lv)
    return None, 'Null' if lk == 'null' else 'Full'


_n = [0]


def build(case):
    """returns (source text, class name, info) ; info: 'in_type' of port a or None, 'const' MV or None"""
    st = tuple(case['st'])
    tt = tuple(case['tt'])
    q, f = case['q'], case['f']
    _n[0] += 1
    cname = f"CV{_n[0]}"
    T = tsrc(tt)
    pre = []        # architecture-level lines
    seq = []        # clocked context body
    conc = []       # concurrent context body
    ports = ["    clk = Port.input(Bit)", "    c = Port.input(Bit)"]
    info = {'in_type': None, 'const': None, 'nullfull': None}
    # ---- the source expression
    if q == 'literal':
        val, SRC = literal_value(st)
        info['const'] = val
        info['nullfull'] = st[0] if st[0] in ('null', 'full') else None
    else:
        in_t = ('bit', None) if st[0] == 'bool' else st
        info['in_type'] = in_t
        ports.append(f"    a = Port.input({tsrc(in_t)})")
        if st[0] == 'bool':
            SRC = "(self.a == Bit(1))"
        elif q == 'port':
            SRC = "self.a"
        elif q == 'signal':
            pre.append(f"        sq = Signal[{tsrc(st)}](name='sq')")
            conc.append("sq <<= self.a")
            SRC = "sq"
        elif q == 'variable':
            pre.append(f"        vq = Variable[{tsrc(st)}](name='vq')")
            seq.append("vq @= self.a")
            SRC = "vq"
        elif q == 'temp':
            SRC = "(self.a | self.a)" if st[0] != 'bit' else "(self.a & self.a)"
        else:
            v = {'bit': 1}.get(st[0], ((1 << st[1]) - 1) if st[1] else 1) if st[0] != 'bit' else 1
            info['const'] = MV(st[0], st[1], v)
            info['in_type'] = None
            ports.pop()
            from vlib.exprgen import lit_src
            SRC = lit_src(st[0], st[1], v)
    seq_only_src = q == 'variable'
    # ---- the target / form
    O = f"    o = Port.output({T}, default={pg.dsrc(tt[0], tt[1], 0)})"
    if f == 'seq':
        seq.append(f"self.o <<= {SRC}")
    elif f == 'conc':
        if seq_only_src:
            return None
        conc.append(f"self.o <<= {SRC}")
    elif f == 'next':
        seq.append(f"self.o.next = {SRC}")
    elif f in ('var', 'value'):
        pre.append(f"        vt = Variable[{T}](name='vt')")
        seq.append(f"vt @= {SRC}" if f == 'var' else f"vt.value = {SRC}")
        seq.append("self.o <<= vt")
    elif f == 'push':
        seq.append(f"self.o ^= {SRC}")
    elif f == 'pushattr':
        seq.append(f"self.o.push = {SRC}")
    elif f == 'slice':
        w = tt[1]
        O = f"    o2 = Port.output(Unsigned[{w + 2}], default=0)"
        seq.append(f"self.o2[{w}:1] <<= {SRC}")
        info['slice'] = (w, 1)
    elif f == 'elem':
        O = "    o2 = Port.output(BitVector[3], default='000')"
        seq.append(f"self.o2[1] <<= {SRC}")
        info['slice'] = (1, 1)
    elif f == 'varinit':
        seq.append(f"vi = Variable[{T}]({SRC})")
        seq.append("self.o <<= vi")
    elif f == 'siginit':
        seq.append(f"si = Signal[{T}]({SRC})")
        seq.append("self.o <<= si")
    elif f == 'siginit_delayed':
        # (delayed_init: the initial assignment is a signal assignment that becomes visible one clock later)
        seq.append(f"sd = Signal[{T}]({SRC}, delayed_init=True)")
        seq.append("self.o <<= sd")
    elif f in ('varinit_attr', 'siginit_attr'):
        # local declarations with further constructor options
        if f == 'varinit_attr':
            seq.append(f"vi = Variable[{T}]({SRC}, name='vi_named')")
        else:
            seq.append(f"vi = Signal[{T}]({SRC}, name='si_named', maybe_uninitialized=True)")
        seq.append("self.o <<= vi")
    elif f == 'port_in':
        if q in ('variable', 'temp') or st[0] == 'bool':
            return None      # entity instantiation happens in architecture(), outside any traced context
        pre.append(f"        Leaf{cname}(x={SRC}, y=self.o)")       # (after the definition of a source signal)
        info['leaf'] = (T, T)
    elif f == 'port_out':
        if q not in ('port', 'signal') or st[0] in ('bool',):
            return None
        # the sub entity's output has the *source* type and is connected to a parent signal of the target type
        pre.insert(0, f"        Leaf{cname}(x=self.a, y=self.o)")
        info['leaf'] = (tsrc(st), tsrc(st))
    elif f in ('ifexp_full', 'ifexp_null', 'full_ifexp', 'retmerge_full'):
        if q == 'literal':
            return None
        other = 'Null' if f == 'ifexp_null' else 'Full'
        info['other'] = other
        if f == 'full_ifexp':
            seq.append(f"self.o <<= ({other} if (~self.c) else {SRC})")
        elif f == 'retmerge_full':
            pre.append("        def pick():")
            pre.append("            if self.c:")
            pre.append(f"                return {SRC}")
            pre.append(f"            return {other}")
            seq.append("self.o <<= pick()")
        else:
            seq.append(f"self.o <<= ({SRC} if self.c else {other})")
    elif f in ('viewtgt_a', 'viewtgt_b', 'viewtgt_conc'):
        if tt[0] not in ('bv', 'u', 's'):
            return None
        others = [k for k in ('bv', 'u', 's') if k != tt[0]]
        dk = others[0] if f != 'viewtgt_b' else others[1]
        view = {'bv': 'bitvector', 'u': 'unsigned', 's': 'signed'}[tt[0]]
        O = f"    o = Port.output({tsrc((dk, tt[1]))}, default={pg.dsrc(dk, tt[1], 0)})"
        if f == 'viewtgt_conc':
            if seq_only_src:
                return None
            conc.append(f"self.o.{view} <<= {SRC}")
        else:
            seq.append(f"self.o.{view} <<= {SRC}")
    elif f in ('arrinit_var', 'arrinit_sig'):
        # element-wise initialisation of a local Array object from a list of run-time values
        if tt[0] not in ('bv', 'u', 's'):
            return None
        Q = 'Variable' if f == 'arrinit_var' else 'Signal'
        from vlib.exprgen import lit_src as _lit
        seq.append(f"ar = {Q}[Array[{T}, 2]]([{_lit(tt[0], tt[1], 0)}, {SRC}])")
        seq.append("self.o <<= ar[1]")
    elif f in ('arrelem', 'arrelem_conc'):
        # an element of an Array signal as assignment target
        if tt[0] not in ('bv', 'u', 's'):
            return None
        if f == 'arrelem_conc' and seq_only_src:
            return None
        pre.append(f"        arr = Signal[Array[{T}, 2]](name='arr')")
        (conc if f == 'arrelem_conc' else seq).append(f"arr[1] <<= {SRC}")
        pre.append("        @std.concurrent")
        pre.append("        def arr_out():")
        pre.append("            self.o <<= arr[1]")
        O = f"    o = Port.output({T})"
    elif f == 'ifexp':
        ports.append(f"    b = Port.input({T})")
        info['b_type'] = tt
        seq.append(f"self.o <<= ({SRC} if self.c else self.b)")
    elif f == 'retmerge':
        ports.append(f"    b = Port.input({T})")
        info['b_type'] = tt
        pre.append("        def pick():")
        pre.append("            if self.c:")
        pre.append(f"                return {SRC}")
        pre.append("            return self.b")
        seq.append("self.o <<= pick()")
    L = [pg.HEADER]
    if 'leaf' in info:
        xi, yo = info['leaf']
        L += [f"class Leaf{cname}(Entity):", f"    x = Port.input({xi})", f"    y = Port.output({yo})",
              "    def architecture(self):", "        @std.concurrent", "        def logic():", "            self.y <<= self.x", ""]
    L += [f"class {cname}(Entity):"] + ports + [O, "    def architecture(self):"] + pre
    if conc:
        L += ["        @std.concurrent", "        def logic():"]
        if any(x.startswith('sq ') for x in conc):
            L.append("            nonlocal sq")
        L += ["            " + x for x in conc]
    if seq:
        L += ["        @std.sequential(std.Clock(self.clk))", "        def proc():"]
        nl = [n for n in ('vq', 'vt') if any(x.startswith(n + ' @=') for x in seq)]
        if nl:
            L.append("            nonlocal " + ', '.join(nl))
        L += ["            " + x for x in seq]
    if not conc and not seq:
        L.append("        pass")
    return '\n'.join(L) + '\n', cname, info


def run_case(case):
    cnt = Counter()
    viol = []
    b = build(case)
    if b is None:
        return result(cnt={'not_applicable_combination': 1})
    src, cname, info = b
    st, tt, f, q = tuple(case['st']), tuple(case['tt']), case['f'], case['q']
    merge = f in ('ifexp', 'retmerge', 'ifexp_full', 'ifexp_null', 'full_ifexp', 'retmerge_full')
    # ---- expectation per source value
    if info['nullfull']:
        ones = ((1 << tt[1]) - 1) if tt[0] in mv.VECK else 1
        if f == 'slice':
            pass
        vals = [(None, MV(tt[0], tt[1], ones if info['nullfull'] == 'full' else 0))]
        must_reject = False
    else:
        if info['const'] is not None:
            svals = [info['const']]
        else:
            svals = source_values(st)
        vals = []
        must_reject = False
        why = None
        for sv in svals:
            try:
                e = expected(sv, case)
            except Reject as r:
                must_reject = True
                why = str(r)
                break
            vals.append((sv, e))
    if f == 'port_out' and not must_reject:
        pass
    silent = (not must_reject) and any(e is None for _, e in vals)
    klass = f"{st[0]}->{tt[0]}" + (':narrower' if st[0] == tt[0] and isinstance(st[1], int) and isinstance(tt[1], int) and st[1] > tt[1] else '')
    key = digest(st, q, tt, f)
    mod = load_source(src, 'c05')
    try:
        try:
            comp = compile_top(getattr(mod, cname))
        except Rejected as r:
            cnt['rejected'] += 1
            if must_reject:
                cnt['must_reject_rejected'] += 1
            elif silent:
                cnt['silent_rejected'] += 1
            else:
                cnt['allowed_but_rejected'] += 1
                cnt[f'allowed_but_rejected:{f}'] += 1
            return result(sig=key, cnt=dict(cnt))
        cnt['accepted'] += 1
        if must_reject:
            viol.append(violation(f'accepted-forbidden-conversion:{klass}',
                                  f"{tsrc(st) if q != 'literal' else st} ({q}) -> {tsrc(tt)} via form '{f}' must be a compile-time error ({why}) "
                                  f"but was accepted", source=src, vhdl=comp.text, form=f))
            return result(sig=None, viol=viol, cnt=dict(cnt))
        try:
            init = {'clk': 0, 'c': 1}
            sim = comp.sim(init=init)
        except Unsupported:
            cnt['vsim_unsupported'] += 1
            return result(cnt=dict(cnt), inconclusive='vsim unsupported')
        bad_type = [i for i in sim.issues if i[0] in ('type-error', 'width-mismatch', 'undeclared-identifier')]
        for kind, det in sim.issues:
            cnt['vcheck:' + kind] += 1
        if bad_type:
            viol.append(violation(f'ill-typed-vhdl-for-conversion:{f}', f"{tsrc(st) if q != 'literal' else st} ({q}) -> {tsrc(tt)} via '{f}': "
                                  f"{bad_type[0][1]}", source=src, vhdl=comp.text, form=f))
            return result(sig=None, viol=viol, cnt=dict(cnt))
        if silent:
            cnt['silent_accepted'] += 1
            return result(sig=None, cnt=dict(cnt))
        oname = 'o2' if f in ('slice', 'elem') else 'o'
        for sv, e in vals:
            if sv is not None and info['in_type'] is not None:
                sim.set('a', sv.v)
            for csel in ((1, 0) if merge else (1,)):
                sim.set('c', csel)
                bval = None
                if merge and 'other' in info:
                    bval = 0 if info['other'] == 'Null' else (((1 << tt[1]) - 1) if tt[0] in mv.VECK else 1)
                elif merge:
                    bt = info['b_type']
                    bval = 1 if bt[0] == 'bit' else (1 << bt[1]) - 2 if bt[1] > 1 else 1
                    sim.set('b', bval)
                sim.settle()
                sim.clock()
                sim.clock()
                got = sim.get(oname)
                if merge and csel == 0:
                    want = bval
                else:
                    want = e.v
                if f in ('slice', 'elem') and got.__class__ is int:
                    hi, lo = info['slice']
                    got = (got >> lo) & ((1 << (hi - lo + 1)) - 1)
                cnt['comparisons'] += 1
                if got.__class__ in (Meta, Uninit) or got != want:
                    viol.append(violation(f'value-not-preserved:{klass}',
                                          f"{tsrc(st) if q != 'literal' else st} ({q}) value {sv.v if sv else info['nullfull']} -> {tsrc(tt)} via '{f}'"
                                          f"{' (other branch selected)' if merge and csel == 0 else ''}: target holds {fmt(got)}, "
                                          f"the conversion rule gives {want}", source=src, vhdl=comp.text, form=f))
                    return result(sig=None, viol=viol, cnt=dict(cnt))
        cnt['accepted_compared'] += 1
        sample = None
        if _n[0] % 300 == 1:
            sample = {'case': case, 'verdict': 'accepted, all source values preserved', 'source_tail': src[-400:]}
        return result(sig=key, cnt=dict(cnt), sample=sample)
    finally:
        unload(mod)
