"""C03  Sequential and concurrent contexts obey hardware assignment semantics.

Generated bodies (signals, variables, pushes, slices, array elements with run-time index, helper
functions with returns in branches, if/elif/else, match, for-break/else, local temporaries) are
printed as CoHDL source and as plain Python over vlib.model; CPython executes the latter, vsim the
emitted VHDL; all ports and named internal signals are compared after every clock of a bounded
breadth-first exploration of the joint state space (every input valuation in every reached state)
followed by a random run."""
import random
from collections import Counter
from vlib import progen as pg
from vlib import bodygen as bgm
from vlib.harness import result, digest, violation

PID = 'C03'
RULE = ("seeded random sequential designs (one clocked context + one concurrent context, 4-6 outputs, local signals, "
        "variables incl. Variable[bool] captured and overwritten, arrays, optional record signal) of 4..20 statements, nesting <=2; each is explored breadth first over (vsim state, "
        "reference state) with all input valuations per state up to an edge budget, then 200/1000 random clocks. "
        "distinct_nontrivial = distinct (feature set, statement count, states reached) of designs that were accepted, "
        "compared without model error and reached >=3 joint states.")
ASSUMPTIONS = ["vsim executes the emitted VHDL faithfully", "vlib.model implements deferred signal / immediate variable / "
               "push-default semantics as stated in C03; designs on which the model raises (undefined read, conversion "
               "outside the documented classes) are discarded and counted"]
REQUIRE = {'quick': {'accepted': 200, 'compared': 150, 'clocks': 50000},
           'thorough': {'accepted': 3000, 'compared': 2000, 'clocks': 1000000}}


def gen_cases(tier, seed):
    n = 640 if tier == 'quick' else 16000
    return [{'seed': seed * 1000003 + i, 'tier': tier} for i in range(n)]


def make(case):
    rnd = random.Random(case['seed'])
    if 'spec' in case:
        # replay of a recorded violation: the design and the generator state are taken from the replay file, so the
        # replay does not depend on the generator version that produced it
        st = case['rnd_state']
        rnd.setstate((st[0], tuple(st[1]), st[2]))
        return rnd, case['spec'], case['feats']
    size = rnd.choice([4, 6, 8, 12, 16])
    spec, feats = bgm.gen_seq_design(rnd, size=size, step_cond=rnd.random() < 0.2)
    return rnd, spec, feats


def run_case(case):
    rnd, spec, feats = make(case)
    rnd_state = rnd.getstate()
    quick = case.get('tier', 'quick') == 'quick'
    out = pg.run_design(spec, rnd, explore_budget=120 if quick else 600, random_clocks=200 if quick else 1000,
                        max_depth=12)
    cnt = out['cnt']
    for f in feats:
        cnt['feat:' + f] += 1
    viol = list(out['viol'])
    for v in viol:
        v['cohdl_source'] = out['src']
        v['reference_source'] = out.get('refsrc')
        v['vhdl'] = out.get('text')
        v['replay_case'] = {'spec': spec, 'feats': sorted(feats), 'rnd_state': rnd_state}
    sig = None
    if out['status'] == 'compared':
        cnt['compared'] += 1
        if out['states'] >= 3 and not viol:
            sig = digest(feats, sum(1 for _ in bgm.flat(spec['ctxs'][0]['body'])), out['states'])
    elif out['status'] and out['status'].startswith('model-error'):
        cnt['discarded:' + out['status'][:60]] += 1
    sample = None
    if case['seed'] % 97 == 0:
        sample = {'seed': case['seed'], 'features': feats, 'status': out['status'], 'states': out.get('states'),
                  'cohdl_source': out['src'][-1500:]}
    return result(sig=sig, viol=viol, cnt=dict(cnt), sample=sample)
