"""C06  Every accepted design yields legal, well-typed, self-consistent VHDL.

The conformance checker of vsim (vcheck, DESIGN.md 1.1 / appendix B: lexical legality, declare-once per
region, no reserved word, no hiding of a predefined name that the text relies on, static typing of every
expression / assignment / association / choice, mode rules, case/select completeness, sensitivity lists,
entity order) runs on
  (a) a naming workload: hostile names in every declaration kind (ports, signals, variables, parameter-
      named temporaries, processes, enum types and literals, array types, entities, instances, user-
      reserved names),
  (b) an expression/typing workload: the C02 expression generators and constant-operand variants,
  (c) a control-flow workload: the C01/C03/C04 body generators,
  (d) un-clocked sequential contexts (sensitivity lists)."""
import re
import random
import keyword
from collections import Counter
from vlib import exprgen as eg
from vlib import exprdesign as ed
from vlib import progen as pg
from vlib import bodygen as bgm
from vlib.harness import result, digest, violation, load_source, unload, compile_top, Rejected
from vlib.vsim import Sim, Unsupported, ElabError
from vlib.vparse import VhdlSyntaxError
from checks import c02

PID = 'C06'
RULE = ("(a) seeded naming designs: 13 declaration slots filled from a pool of VHDL reserved words, predefined "
        "std_logic_1164/numeric_std/standard names, names differing only in case, underscore-decorated names, "
        "suffix-collision families (x, x1, x2, ...) and the compiler's own generated names; optionally "
        "additional_reserved_names / reserved_names; (b) all depth-1 operator x type-pair expressions with run-time and "
        "constant operands + random trees; (c) generated sequential / coroutine / reset designs; (d) un-clocked processes; (e) selectors that are elements / slices / "
        "views of Array objects in select_with, std.select and match. "
        "Every emitted text is parsed, elaborated and statically checked.  distinct_nontrivial = distinct accepted "
        "designs (by text digest) that were fully checked.")
ASSUMPTIONS = ["legality is judged by vcheck's rule set for the emitted VHDL subset (VHDL-93/2002); no reference analyser "
               "is available in the sandbox"]
REQUIRE = {'quick': {'texts_checked': 800, 'naming_accepted': 200, 'array_element_selectors': 40},
           'thorough': {'texts_checked': 10000, 'naming_accepted': 3000, 'array_element_selectors': 40}}

VHDL_RESERVED = """abs access after alias all and architecture array assert attribute begin block body buffer bus case
 component configuration constant disconnect downto else elsif end entity exit file for function generate generic group
 guarded if impure in inertial inout is label library linkage literal loop map mod nand new next nor not null of on open or
 others out package port postponed procedure process pure range record register reject rem report return rol ror select
 severity signal shared sla sll sra srl subtype then to transport type unaffected units until use variable wait when while
 with xnor xor""".split()
PREDEF = """to_integer shift_left shift_right rising_edge falling_edge resize unsigned signed std_logic std_logic_vector
 boolean integer true false cohdl_bool_to_std_logic to_unsigned to_signed work ieee natural std_ulogic rotate_left
 numeric_std std_logic_1164 positive string bit bit_vector character time real now""".split()
GENERATED = """temp temp1 temp2 sig sig1 var var1 proc proc1 logic concurrent buffer_o buffer_q s_proc s_p state_0 state_1
 comp_leaf comp_Leaf arch_top inst array_type array_type1 state_proc""".split()
FAMILY = ['x', 'x1', 'x2', 'x3', 'x4', 'x5', 'x8', 'X', 'X1', 'x01']
CASE = ['Sig', 'sig', 'SIG', 'Clk', 'CLK', 'State', 'STATE', 'state', 'Temp', 'TEMP', 'Proc', 'Stage', 'stage', 'STAGE']
UNDERS = ['_x', 'x_', 'x__y', '__x__', '_', '__', 'a_b_', 'a___b', '_temp', 'temp_']
POOL = VHDL_RESERVED + PREDEF + GENERATED + FAMILY + CASE + UNDERS
PY_FORBIDDEN = set(keyword.kwlist) | {'self', 'std', 'cohdl', 'Bit', 'BitVector', 'Unsigned', 'Signed', 'Signal', 'Variable',
                                      'Port', 'Entity', 'Array', 'Null', 'Full', 'enum', 'clk', 'architecture', 'print', 'type',
                                      'match', 'case', '_', '__', 'None', 'True', 'False', 'true', 'false', 'Temporary', 'range',
                                      'abs', 'all', 'any', 'next', 'open', 'file', 'exit', 'map', 'buffer', 'bus'}


def gen_cases(tier, seed):
    cases = []
    n = 700 if tier == 'quick' else 9000
    for i in range(n):
        cases.append({'k': 'naming', 'seed': seed * 99991 + i})
    ts = c02.types_upto(3 if tier == 'quick' else 4)
    for ta in ts:
        for tb in ts:
            cases.append({'k': 'pair', 'ta': list(ta), 'tb': list(tb), 'seed': seed})
    for t in c02.types_upto(4):
        cases.append({'k': 'unary', 't': list(t), 'seed': seed})
    for i in range(60 if tier == 'quick' else 800):
        cases.append({'k': 'rand', 'seed': seed * 100003 + 17 + i, 'wmax': 4})
    for i in range(240 if tier == 'quick' else 4000):
        cases.append({'k': 'body', 'gen': ('c03', 'c01', 'c04')[i % 3], 'seed': seed * 7919 + 31 + i})
    for i in range(120 if tier == 'quick' else 1500):
        cases.append({'k': 'sens', 'seed': seed * 7927 + i})
    # selectors that are (slices of) elements of Array signals / variables: with..select, case
    for ek in ('u', 's', 'bv'):
        for how in ('select_with', 'match', 'stdselect'):
            for ctx in ('conc', 'seq'):
                for sel in ('const', 'rt', 'slice', 'rtslice', 'view'):
                    if how == 'match' and ctx == 'conc':
                        continue
                    cases.append({'k': 'arrsel', 'ek': ek, 'how': how, 'ctx': ctx, 'sel': sel})
    return cases


# ------------------------------------------------------------------------------------------------
def vcheck_text(text, cnt, ctx, reserved=()):
    """returns list of violations for one emitted text"""
    viol = []
    cnt['texts_checked'] += 1
    try:
        sim = Sim(text)
    except VhdlSyntaxError as e:
        return [violation('does-not-parse', f"{e} ; {ctx}", vhdl=text)]
    except ElabError as e:
        return [violation('does-not-elaborate', f"{e} ; {ctx}", vhdl=text)]
    except Unsupported as e:
        cnt['vsim_unsupported'] += 1
        cnt['vsim_unsupported:' + str(e)[:40]] += 1
        return []
    seen = set()
    for kind, det in sim.issues:
        cnt['vcheck:' + kind] += 1
        if (kind, det[:60]) in seen:
            continue
        seen.add((kind, det[:60]))
        viol.append(violation(kind, f"{det} ; {ctx}", vhdl=text))
    if reserved:
        import re
        low = {r.lower() for r in reserved}
        for m in re.finditer(r"^\s*(?:signal|variable|constant|type)\s+([A-Za-z_0-9]+)|^\s*([A-Za-z_0-9]+)\s*:\s*(?:in|out|inout|process|entity)\b", text, re.M):
            n = (m.group(1) or m.group(2) or '').lower()
            if n in low:
                viol.append(violation('user-reserved-name-used', f"{n} ; {ctx}", vhdl=text))
    for kind, det in sim.warnings:
        cnt['vwarn:' + kind] += 1
    return viol


def pyname(rnd, used, allow_pool=True):
    for _ in range(50):
        n = rnd.choice(POOL)
        if n.isidentifier() and n not in PY_FORBIDDEN and n not in used and not n.startswith('__'):
            used.add(n)
            return n
    n = f"nm{len(used)}"
    used.add(n)
    return n


def anyname(rnd):
    return rnd.choice(POOL)


_n = [0]


def naming_source(rnd, safe_members=False, safe_entities=False):
    used_cls = set()
    Top = pyname(rnd, used_cls)
    Sub = pyname(rnd, used_cls)
    En = pyname(rnd, used_cls)
    # names inside class bodies / function scopes
    ua = set(['clk'])
    p_in, p_out = pyname(rnd, ua), pyname(rnd, ua)
    ub = set(['clk'])
    in1, in2, out1, out2, out3 = (pyname(rnd, ub) for _ in range(5))
    um = set()
    m0, m1, m2 = (pyname(rnd, um) for _ in range(3))
    hostile_members = rnd.random() < 0.15
    if safe_members or not hostile_members:
        m0, m1, m2 = 'lit_a', 'lit_b', 'lit_c'
    mixed_case_members = (not hostile_members) and rnd.random() < 0.3
    if mixed_case_members and not safe_members:
        # legal literal names with upper-case letters; objects below get the same names in another spelling
        m0, m1, m2 = 'Idle', 'BUSY', 'doneFlag'
    import re as _re
    _nrm = lambda n: _re.sub('_+', '_', n).strip('_').lower()      # noqa
    if safe_entities is True and _nrm(Top) == _nrm(Sub):
        Sub = Sub.strip('_') + '_sub'
    elif safe_entities == 'force':
        Sub = 'zq_sub_entity'          # (only used when the emitted text contains two entities with the same name)
    uf = set([Top, Sub, En])
    fsub, cfn, pfn, coro, helper, param = (pyname(rnd, uf) for _ in range(6))
    n = [anyname(rnd) for _ in range(6)]
    if mixed_case_members and not safe_members:
        n[0], n[1], n[2] = rnd.choice(['idle', 'Idle', 'IDLE']), rnd.choice(['busy', 'Busy']), rnd.choice(['doneflag', 'DoneFlag'])
    reserved_kw = ''
    extra_reserved = None
    attr = ''
    if rnd.random() < 0.2:
        extra_reserved = sorted({anyname(rnd) for _ in range(3)})
    if rnd.random() < 0.2:
        attr = f", attributes={{'reserved_names': {sorted({anyname(rnd) for _ in range(3)})!r}}}"
    use_sub = rnd.random() < 0.7
    use_coro = rnd.random() < 0.6
    use_enum = rnd.random() < 0.7
    L = [pg.HEADER, "from cohdl import enum, select_with", ""]
    if use_sub:
        L += [f"class {Sub}(Entity):", f"    {p_in} = Port.input(Bit)", f"    {p_out} = Port.output(Bit)",
              "    def architecture(self):", "        @std.concurrent", f"        def {fsub}():",
              f"            self.{p_out} <<= self.{p_in}", ""]
    if use_enum:
        L += [f"class {En}(enum.Enum):", f"    {m0} = enum.auto()", f"    {m1} = enum.auto()", f"    {m2} = enum.auto()", ""]
    L += [f"class {Top}(Entity{attr}):", "    clk = Port.input(Bit)",
          f"    {in1} = Port.input(Bit)", f"    {in2} = Port.input(Unsigned[3])",
          f"    {out1} = Port.output(Bit)", f"    {out2} = Port.output(Unsigned[3])", f"    {out3} = Port.output(BitVector[2])",
          "    def architecture(self):",
          f"        loc1 = Signal[Bit](name={n[0]!r})",
          f"        loc2 = Signal[Unsigned[3]](0, name={n[1]!r})",
          f"        loc3 = Variable[Unsigned[3]](0, name={n[2]!r})",
          f"        loc5 = Signal[Array[Bit, 2]](name={n[4]!r})",
          f"        loc6 = Signal[Bit](name={n[5]!r})"]
    if use_enum:
        L.append(f"        loc4 = Signal[{En}]({En}.{m0}, name={n[3]!r})")
    if use_sub:
        L.append(f"        {Sub}({p_in}=self.{in1}, {p_out}=loc1)")
    L += [f"        def {helper}({param}):", f"            return {param} + 1",
          "        @std.concurrent", f"        def {cfn}():"]
    if not use_sub:
        L.append(f"            loc1.next = self.{in1}")
    L += [f"            self.{out1} <<= loc1 & loc5[0] & loc6",
          f"            loc5[0] <<= self.{in1}", f"            loc5[1] <<= ~self.{in1}", f"            loc6.next = loc5[1]",
          "        @std.sequential(std.Clock(self.clk))", f"        def {pfn}():",
          f"            loc3.value = {helper}(self.{in2})", "            loc2.next = loc3", f"            self.{out2} <<= loc2"]
    if use_enum:
        L += [f"            loc4.next = {En}.{m1} if self.{in1} else {En}.{m2}",
              f"            self.{out3} <<= select_with(loc4, {{{En}.{m0}: '01', {En}.{m1}: '10'}}, Null)"]
    else:
        L += [f"            self.{out3} <<= '01' if self.{in1} else '10'"]
    if use_coro:
        L += ["        @std.sequential(std.Clock(self.clk))", f"        async def {coro}():",
              f"            await self.{in1}", f"            await cohdl.expr(self.{in2} == 3)"]
    naming_source.last_info = {'hostile_members': hostile_members}
    return '\n'.join(L) + '\n', Top, extra_reserved


def run_naming(case):
    rnd = random.Random(case['seed'])
    cnt = Counter()
    src, Top, extra = naming_source(rnd)
    hostile_members = naming_source.last_info['hostile_members']
    mod = None
    try:
        try:
            mod = load_source(src, 'c06')
        except Exception as e:      # noqa  (a name combination that Python itself refuses)
            cnt['python_rejected'] += 1
            return result(cnt=dict(cnt))
        kw = {'additional_reserved_names': set(extra)} if extra else {}
        try:
            comp = compile_top(getattr(mod, Top), **kw)
        except Rejected as r:
            cnt['naming_rejected'] += 1
            cnt['naming_rejected:' + r.msg[:40]] += 1
            return result(cnt=dict(cnt))
        cnt['naming_accepted'] += 1
        viol = vcheck_text(comp.text, cnt, f"naming seed {case['seed']}", reserved=extra or ())
        if viol:
            # differential classification: which findings vanish when only the enumeration literals / only the
            # case-colliding entity names are replaced by harmless ones?  (stages accumulate)
            key = lambda v: (v['mech'], v['detail'].split(' ; ')[0])      # noqa
            flags = {}
            tagged = []
            ent_names = [m.lower() for m in re.findall(r'(?mi)^\s*entity\s+(\w+)\s+is', comp.text)]
            dup_entities = len(ent_names) != len(set(ent_names))
            for tag, flag in (('enum-literal-emitted-verbatim', 'safe_members'), ('entity-names-differ-only-in-case', 'safe_entities')):
                if flag == 'safe_members' and not hostile_members:
                    continue      # the known finding is about hostile literal names only (reserved words, predefined names, ...)
                trial = dict(flags)
                # two emitted entities with the same (case-insensitive) name: class names that differ only in case, or a
                # name that collides after the uniquifying suffix (SIG -> SIG1 next to sig1); same mechanism: entity names
                # are only made unique inside their own entity
                trial[flag] = 'force' if (flag == 'safe_entities' and dup_entities) else True
                src2, Top2, extra2 = naming_source(random.Random(case['seed']), **trial)
                if src2 == src:
                    continue
                mod2 = load_source(src2, 'c06')
                try:
                    comp2 = compile_top(getattr(mod2, Top2), **kw)
                    v2 = vcheck_text(comp2.text, Counter(), f"naming seed {case['seed']}", reserved=extra or ())
                except Rejected:
                    v2 = None
                finally:
                    unload(mod2)
                if v2 is None:
                    continue
                after = {key(v) for v in v2}
                gone = [v for v in viol if key(v) not in after]
                if gone:
                    tagged.append(violation(tag, f"{gone[0]['mech']}: {gone[0]['detail']}", vhdl=gone[0].get('vhdl')))
                    viol, src, flags = v2, src2, trial
            viol = tagged + viol
        for v in viol:
            v['source'] = src
        sample = {'seed': case['seed'], 'source_head': src[300:1100]} if case['seed'] % 211 == 0 else None
        return result(sig=digest(comp.text), viol=viol, cnt=dict(cnt), sample=sample)
    finally:
        if mod is not None:
            unload(mod)


def compile_exprs(in_types, exprs, cnt, ctx):
    """compile expression batches (as C02 does) and vcheck the texts"""
    viol = []
    sigs = []
    keep, types = [], []
    for e in exprs:
        try:
            t = eg.static_type(e, in_types)
        except eg.Reject:
            continue
        if t is None or t[0] == 'int':
            continue
        keep.append(e)
        types.append(t)

    def go(es, ts):
        if not es:
            return
        ed._cnt[0] += 1
        cname = f"CE{ed._cnt[0]}"
        src = ed.build_source(cname, in_types, es, ts)
        mod = load_source(src, 'c06e')
        try:
            try:
                comp = compile_top(getattr(mod, cname))
            except Rejected:
                if len(es) > 1:
                    for e, t in zip(es, ts):
                        go([e], [t])
                else:
                    cnt['expr_rejected'] += 1
                return
            vs = vcheck_text(comp.text, cnt, f"{ctx} exprs={[eg.render(e) for e in es][:5]}")
            for v in vs:
                v['source'] = src
            viol.extend(vs)
            if not vs:
                sigs.append(digest(comp.text))
        finally:
            unload(mod)
    for i in range(0, len(keep), 16):
        go(keep[i:i + 16], types[i:i + 16])
    return viol, sigs


def constify(e, in_types, rnd):
    """replace input b (or a for unary forms) by a typed constant: constant-operand paths of the back end"""
    target = next(iter(in_types)) if len(in_types) == 1 else ('b' if 'b' in in_types else 'a')
    t = in_types[target]

    def sub(n):
        if isinstance(n, tuple):
            if n and n[0] == 'in' and n[1] == target:
                v = rnd.randrange(2) if t[0] == 'bit' else rnd.randrange(1 << t[1])
                return ('lit', t[0], t[1], v)
            return tuple(sub(x) for x in n)
        if isinstance(n, list):
            return [sub(x) for x in n]
        return n
    return sub(e)


def run_exprs(case):
    rnd = random.Random(case['seed'])
    cnt = Counter()
    if case['k'] == 'pair':
        ta, tb = tuple(case['ta']), tuple(case['tb'])
        in_types = {'a': ta, 'b': tb}
        exprs = c02.pair_exprs(ta, tb) + c02.lit_exprs(ta, tb, rnd)
        if ta == tb:
            exprs += c02.int_exprs(ta)
    elif case['k'] == 'unary':
        in_types = {'a': tuple(case['t'])}
        exprs = c02.unary_exprs(tuple(case['t']))
    else:
        kinds = ['bit', 'bv', 'u', 's', 'u', 's']
        in_types = {}
        for n in 'abc':
            k = rnd.choice(kinds)
            in_types[n] = (k, None if k == 'bit' else rnd.randint(1, case['wmax']))
        exprs = c02.rand_tree(rnd, in_types, 3)[:16]
    v1, s1 = compile_exprs(in_types, exprs, cnt, f"{case['k']} {in_types}")
    # the same expressions with one operand (and with all operands) replaced by constants
    cexprs = [constify(e, in_types, rnd) for e in exprs]
    v2, s2 = compile_exprs(in_types, cexprs, cnt, f"{case['k']} const-operand {in_types}")
    allc = []
    for e in exprs[:12]:
        x = e
        for nme in list(in_types):
            x = constify(x, {nme: in_types[nme]}, rnd) if True else x
        allc.append(x)
    v3, s3 = compile_exprs({}, allc, cnt, f"{case['k']} all-constant {in_types}") if case['k'] != 'rand' else ([], [])
    return result(sig=(s1 + s2 + s3) or None, viol=v1 + v2 + v3, cnt=dict(cnt))


def run_body(case):
    rnd = random.Random(case['seed'])
    cnt = Counter()
    if case['gen'] == 'c03':
        spec, feats = bgm.gen_seq_design(rnd, size=rnd.choice([4, 8, 12]))
    elif case['gen'] == 'c01':
        spec, feats = bgm.gen_coro_design(rnd, size=rnd.choice([4, 8, 12]), depth=rnd.choice([2, 3]))
    else:
        spec, feats = bgm.gen_reset_design(rnd, size=rnd.choice([4, 8]))
    cname = f"BD{rnd.randrange(1 << 30)}"
    src = pg.render_cohdl(spec, cname)
    mod = load_source(src, 'c06b')
    try:
        try:
            comp = compile_top(getattr(mod, cname))
        except Rejected:
            cnt['body_rejected'] += 1
            return result(cnt=dict(cnt))
        viol = vcheck_text(comp.text, cnt, f"generated body {case['gen']} seed {case['seed']}")
        for v in viol:
            v['source'] = src
        return result(sig=digest(comp.text) if not viol else None, viol=viol, cnt=dict(cnt))
    finally:
        unload(mod)


def run_sens(case):
    """un-clocked sequential contexts: the sensitivity list must contain every signal the process reads"""
    rnd = random.Random(case['seed'])
    cnt = Counter()
    env = bgm.Env()
    ins = [bgm.Obj(f"self.{n}", k, w, n, 'in') for n, k, w in [('a', 'bit', None), ('b', 'bit', None), ('d', 'u', 2), ('x', 'u', 3), ('y', 'bv', 4)]]
    so = [bgm.Obj('s0', 'u', 3, 's0', 'sig'), bgm.Obj('s1', 'bv', 4, 's1', 'sig')]
    outs = [bgm.Obj('self.o0', 'u', 3, 'o0', 'out'), bgm.Obj('self.o1', 'bv', 4, 'o1', 'out'), bgm.Obj('self.o2', 'bit', None, 'o2', 'out')]
    env.read = ins + so
    for i in range(4):
        env.read.append(bgm.Obj(f"m0[{i}]", 'u', 3, 'm0', 'arrelem'))
    env.read.append(bgm.Obj("m0[self.d]", 'u', 3, 'm0', 'arrelem'))
    # references built in plain Python at architecture level: the index signal `e` is read only through them
    arch_refs = rnd.random() < 0.5
    if arch_refs:
        env.read += [bgm.Obj('rx', 'u', 3, 'm0', 'arrelem'), bgm.Obj('ry', 'bit', None, 'y', 'arrelem')] * 2
    env.wsig = outs
    # a signal that the un-clocked process itself reads *and* drives (in either order): it belongs in the list as well
    own = rnd.random() < 0.6
    if own:
        st = bgm.Obj('st', 'u', 3, 'st', 'sig')
        env.read = env.read + [st, st]
        env.wsig = outs + [st]
        cnt['unclocked_with_own_signal'] += 1
    bg = bgm.BodyGen(rnd, env)
    body = bg.seq_body(rnd.choice([3, 5, 8]), 2)
    if not body:
        body = [('sig', 'self.o0', 's0')]
    if own and rnd.random() < 0.5:
        body = [('sig', 'self.o0', 'st')] + body + [('sig', 'st', 'self.x')]
    cname = f"SN{rnd.randrange(1 << 30)}"
    L = [pg.HEADER, f"class {cname}(Entity):", "    clk = Port.input(Bit)", "    a = Port.input(Bit)", "    b = Port.input(Bit)",
         "    d = Port.input(Unsigned[2])", "    e = Port.input(Unsigned[2])", "    x = Port.input(Unsigned[3])", "    y = Port.input(BitVector[4])",
         "    o0 = Port.output(Unsigned[3])", "    o1 = Port.output(BitVector[4])", "    o2 = Port.output(Bit)",
         "    def architecture(self):", "        s0 = Signal[Unsigned[3]](name='s0')", "        s1 = Signal[BitVector[4]](name='s1')",
         "        m0 = Signal[Array[Unsigned[3], 4]](name='m0')", "        st = Signal[Unsigned[3]](name='st')",
         "        rx = m0[self.e]", "        ry = self.y[self.e]",
         "        @std.sequential(std.Clock(self.clk))", "        def feed():", "            nonlocal s0, s1",
         "            s0 <<= self.x", "            s1 <<= self.y", "            m0[self.d] <<= self.x"]
    for h in bg.helpers:
        L += pg.render_function(False, h['name'], h['params'], h['body'], False, 2)
    L.append("        @std.sequential")
    L += pg.render_function(False, 'comb', '', body, False, 2)
    src = '\n'.join(L) + '\n'
    mod = load_source(src, 'c06s')
    try:
        try:
            comp = compile_top(getattr(mod, cname))
        except Rejected as r:
            cnt['sens_rejected'] += 1
            cnt['sens_rejected:' + r.msg[:40]] += 1
            return result(cnt=dict(cnt))
        cnt['unclocked_processes'] += 1
        viol = vcheck_text(comp.text, cnt, f"un-clocked process seed {case['seed']}")
        for v in viol:
            v['source'] = src
        return result(sig=digest(comp.text) if not viol else None, viol=viol, cnt=dict(cnt))
    finally:
        unload(mod)


_as = [0]


def run_arrsel(case):
    """an element of an Array object (constant / run-time index, slice, typed view) as selector of select_with / match / std.select"""
    cnt = Counter()
    ek, how, ctx, sel = case['ek'], case['how'], case['ctx'], case['sel']
    _as[0] += 1
    cname = f"AS{_as[0]}"
    ET = {'u': 'Unsigned', 's': 'Signed', 'bv': 'BitVector'}[ek]
    subj = {'const': 'mem[1]', 'rt': 'mem[self.i]', 'slice': 'mem[2][1:0]', 'rtslice': 'mem[self.i][2:1]',
            'view': 'mem[self.i].bitvector' if ek != 'bv' else 'mem[self.i].unsigned'}[sel]
    # kind of the selector expression in CoHDL: slices are BitVectors, views what they say, elements the element type
    sk = 'bv' if sel in ('slice', 'rtslice') else ({'u': 'bv', 's': 'bv', 'bv': 'u'}[ek] if sel == 'view' else ek)
    w = 2 if sel in ('slice', 'rtslice') else 3
    def key(v):
        if sk == 'bv':
            return repr(format(v, f'0{w}b'))
        if sk == 's':
            return str(v - (1 << w) if v >> (w - 1) else v)
        return str(v)
    alts = {key(0): "Unsigned[4](1)", key(1): "Unsigned[4](2)", key(3): "self.x"}
    L = [pg.HEADER, f"class {cname}(Entity):", "    clk = Port.input(Bit)", "    i = Port.input(Unsigned[2])", f"    d = Port.input({ET}[3])",
         "    x = Port.input(Unsigned[4])", "    q = Port.output(Unsigned[4])", "    def architecture(self):",
         f"        mem = Signal[Array[{ET}[3], 4]](name='mem')",
         "        @std.sequential(std.Clock(self.clk))", "        def feed():", "            mem[self.i] <<= self.d"]
    L += ["        @std.concurrent" if ctx == 'conc' else "        @std.sequential(std.Clock(self.clk))", "        def logic():"]
    if how == 'select_with':
        L.append(f"            self.q <<= cohdl.select_with({subj}, {{{', '.join(f'{k}: {v}' for k, v in alts.items())}}}, default=Unsigned[4](9))")
    elif how == 'stdselect':
        L.append(f"            self.q <<= std.select[Unsigned[4]]({subj}, {{{', '.join(f'{k}: {v}' for k, v in alts.items())}}}, default=Unsigned[4](9))")
    else:
        L.append(f"            match {subj}:")
        for k, v in alts.items():
            L += [f"                case {k}:", f"                    self.q <<= {v}"]
        L += ["                case _:", "                    self.q <<= 9"]
    src = '\n'.join(L) + '\n'
    mod = load_source(src, 'c06a')
    try:
        try:
            comp = compile_top(getattr(mod, cname))
        except Rejected as r:
            cnt['arrsel_rejected'] += 1
            cnt['arrsel_rejected:' + r.etype + ':' + r.msg[:40].replace('\n', ' ')] += 1
            return result(cnt=dict(cnt))
        cnt['array_element_selectors'] += 1
        viol = vcheck_text(comp.text, cnt, f"array element selector {subj} ({ET}) in {how} / {ctx}")
        for v in viol:
            v['source'] = src
        return result(sig=digest(comp.text) if not viol else None, viol=viol, cnt=dict(cnt))
    finally:
        unload(mod)


def run_case(case):
    k = case['k']
    if k == 'arrsel':
        return run_arrsel(case)
    if k == 'naming':
        return run_naming(case)
    if k in ('pair', 'unary', 'rand'):
        return run_exprs(case)
    if k == 'body':
        return run_body(case)
    return run_sens(case)
