"""C11  Compilation is a pure function of the design, independent of history.

Every case is a *history*: a sequence of compilations (accepted and rejected designs, repetitions,
compilations with additional_reserved_names) executed in one fresh interpreter under a given
PYTHONHASHSEED.  The SHA-256 of every accepted output is compared with the output of the same design
compiled alone in a fresh interpreter (hash seed 0).  A design that compiles alone but raises after some
history, or whose bytes differ, is a violation."""
import os
import json
import random
import subprocess
from collections import Counter
from vlib.harness import result, digest, violation, REPO, PY, VERIF

PID = 'C11'
RULE = ("pool: 17 hand-written accepted designs (coroutines, prefixes, NamedQualifier, hierarchy, inline entities, always, "
        "enums, arrays, Fifo, executors, colliding names, module-level classes compiled repeatedly) + seeded generated "
        "designs, 15 rejected designs failing at every compiler stage.  histories: every (rejected, accepted) pair, "
        "every ordered (accepted, accepted') pair, each design 4x in a row, compilations with additional_reserved_names "
        "before a design that uses such a name, random sequences of length <=14, each under PYTHONHASHSEED in a small set. "
        "distinct_nontrivial = distinct histories whose every accepted step was compared with its fresh-interpreter bytes.")
ASSUMPTIONS = ["the reference output of a design is its output when compiled alone in a fresh interpreter with PYTHONHASHSEED=0"]
REQUIRE = {'quick': {'outputs_compared': 1500, 'histories_with_rejection': 200},
           'thorough': {'outputs_compared': 15000, 'histories_with_rejection': 2000}}
SHARDS_PER_CORE = 4

_pool = None


def pool():
    global _pool
    if _pool is None:
        import sys
        if VERIF not in sys.path:
            sys.path.insert(0, VERIF)
        from vlib import c11_pool
        _pool = (sorted(c11_pool.GOOD), sorted(c11_pool.BAD))
    return _pool


def gen_cases(tier, seed):
    rnd = random.Random(seed)
    goods, bads = pool()
    gens = [f"gen:{g}:{seed * 31 + i}" for i, g in enumerate(['c01', 'c03', 'c04'] * (2 if tier == 'quick' else 8))]
    G = [f"good:{g}" for g in goods] + gens
    B = [f"bad:{b}" for b in bads]
    cases = []
    hs = [0, 1, 12345] if tier == 'quick' else [0, 1, 2, 3, 7, 12345, 99999, 424242]
    # every rejected design followed by every accepted design (in chunks: one history = one bad + several goods)
    for b in B:
        order = G[:]
        rnd.shuffle(order)
        for i in range(0, len(order), 6):
            cases.append({'steps': [[b, {}]] + [[g, {}] for g in order[i:i + 6]], 'hs': rnd.choice(hs)})
    # ordered pairs of accepted designs
    for g1 in G:
        others = [g for g in G]
        rnd.shuffle(others)
        for i in range(0, len(others), 5):
            steps = []
            for g2 in others[i:i + 5]:
                steps += [[g1, {}], [g2, {}]]
            cases.append({'steps': steps, 'hs': rnd.choice(hs)})
    # repetitions
    for g in G:
        cases.append({'steps': [[g, {}]] * 4, 'hs': rnd.choice(hs)})
    # user-reserved names of an earlier compilation must not leak
    for g in ['good:names', 'good:counter', 'good:coro', 'good:prefix']:
        for res in (['toggle', 'state'], ['x', 'cnt', 'proc'], ['stage_reg_a', 'mode', 's_proc']):
            cases.append({'steps': [[g, {}], ['good:enum', {'reserved': res}], ['good:names', {'reserved': res}], [g, {}],
                                    ['good:names', {}], ['good:coro', {}], ['good:prefix', {}]], 'hs': rnd.choice(hs)})
    # random sequences
    n = 120 if tier == 'quick' else 2500
    for _ in range(n):
        L = rnd.randint(4, 14)
        steps = []
        for _ in range(L):
            r = rnd.random()
            if r < 0.3:
                steps.append([rnd.choice(B), {}])
            elif r < 0.4 and steps:
                steps.append(list(rnd.choice(steps)))
            else:
                steps.append([rnd.choice(G), {}])
        cases.append({'steps': steps, 'hs': rnd.choice(hs)})
    # hash seeds only
    for h in hs:
        for i in range(0, len(G), 8):
            cases.append({'steps': [[g, {}] for g in G[i:i + 8]], 'hs': h})
    # reference outputs: every (design, options) alone in a fresh interpreter, computed once here
    from concurrent.futures import ThreadPoolExecutor
    keys = {}
    for c in cases:
        for name, opts in c['steps']:
            keys[(name, json.dumps(opts, sort_keys=True))] = (name, opts)
    with ThreadPoolExecutor(16) as ex:
        res = list(ex.map(lambda k: run_history([list(k)], 0)[0], keys.values()))
    base = {f"{k[0]}|{k[1]}": r for k, r in zip(keys, res)}
    for c in cases:
        c['base'] = {f"{n}|{json.dumps(o, sort_keys=True)}": base[f"{n}|{json.dumps(o, sort_keys=True)}"] for n, o in c['steps']}
    return cases


def run_history(steps, hs, timeout=600):
    env = dict(os.environ)
    env['PYTHONHASHSEED'] = str(hs)
    env['PYTHONDONTWRITEBYTECODE'] = '1'
    p = subprocess.run([PY, os.path.join(VERIF, 'vlib', 'c11_run.py'), REPO, VERIF, json.dumps(steps)],
                       stdout=subprocess.PIPE, stderr=subprocess.PIPE, timeout=timeout, env=env)
    if p.returncode != 0:
        raise RuntimeError(f"history runner crashed: {p.stderr.decode(errors='replace')[-800:]}")
    return json.loads(p.stdout.decode().strip().splitlines()[-1])


_base = {}


def baseline(name, opts):
    key = (name, json.dumps(opts, sort_keys=True))
    if key not in _base:
        _base[key] = run_history([[name, opts]], 0)[0]
    return _base[key]


def run_case(case):
    cnt = Counter()
    viol = []
    steps = case['steps']
    try:
        res = run_history(steps, case['hs'])
    except (RuntimeError, subprocess.TimeoutExpired) as e:
        return result(inconclusive=str(e)[:600], cnt={'runner_failures': 1})
    had_reject = False
    for i, ((name, opts), r) in enumerate(zip(steps, res)):
        b = case['base'][f"{name}|{json.dumps(opts, sort_keys=True)}"] if 'base' in case else baseline(name, opts)
        if b[0] == 'rejected':
            had_reject = had_reject or r[0] == 'rejected'
            if r[0] != 'rejected':
                cnt['rejected_alone_accepted_in_history'] += 1
                viol.append(violation('acceptance-depends-on-history', f"{name} is rejected when compiled alone ({b[1]}) but accepted "
                                      f"as step {i} of {[s[0] for s in steps]} (hash seed {case['hs']})"))
            continue
        cnt['outputs_compared'] += 1
        prev = [s[0] for s in steps[:i]]
        if r[0] == 'rejected':
            kind = 'after-rejected-design' if any(p.startswith('bad:') for p in prev) else 'after-accepted-designs'
            viol.append(violation(f'compiles-alone-but-fails-in-history:{kind}',
                                  f"{name} compiles in a fresh interpreter but raises {r[1]}: {r[2]!r} as step {i} after {prev} "
                                  f"(hash seed {case['hs']})", steps=steps))
        elif r[1] != b[1]:
            kind = ('after-rejected-design' if any(p.startswith('bad:') for p in prev)
                    else 'hash-seed-only' if not prev else 'repeated' if name in prev else 'after-accepted-designs')
            viol.append(violation(f'output-depends-on-history:{kind}',
                                  f"{name}: bytes differ from the fresh-interpreter output (len {r[2]} vs {b[2]}) as step {i} after {prev} "
                                  f"(hash seed {case['hs']}, options {opts})", steps=steps))
    if had_reject:
        cnt['histories_with_rejection'] += 1
    # report each mechanism once per history
    seen = set()
    uniq = []
    for v in viol:
        if v['mech'] not in seen:
            seen.add(v['mech'])
            uniq.append(v)
    sample = {'history': [s[0] for s in steps], 'hash_seed': case['hs'], 'results': [r[0] for r in res]} if len(steps) > 6 and case['hs'] == 1 else None
    return result(sig=digest(steps, case['hs']) if not uniq else None, viol=uniq, cnt=dict(cnt), sample=sample, evals=len(steps))
