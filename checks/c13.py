"""C13  Parametrised types are canonical and form the documented subtype lattice; views alias storage.

(a) fresh interpreters (one per seeded creation order): every BitVector/Unsigned/Signed[n], Array[T,n],
    Signal/Variable/Temporary/Port[T(,dir)] is requested twice in different orders (identity), all pairs
    are compared (distinctness), issubclass / isinstance are compared with the documented lattice,
    and chains of views (.unsigned/.signed/.bitvector, slices, indices, iteration) are written through
    and read back at Python level (root, qualifier, storage).
(b) the same aliasing in emitted logic: random chains of nested views as read sources and as
    assignment targets of a compiled entity, executed by vsim and compared with the absolute bit
    ranges computed independently."""
import os
import sys
import json
import random
import subprocess
from collections import Counter
from vlib import progen as pg
from vlib.harness import result, digest, violation, load_source, unload, compile_top, Rejected, REPO, PY, VERIF
from vlib.vsim import Meta, Unsupported, fmt

PID = 'C13'
RULE = ("(a) one fresh interpreter per seed: 60-120 random type requests (widths 1..40, arrays, 3 qualifiers, ports with 3 "
        "directions, unparametrised BitVector/Unsigned/Signed), each requested twice, all pairs compared, <=3600 issubclass and "
        "<=1000 isinstance queries against the documented lattice, 96 view chains written through; (b) compiled entities with "
        "8 read chains and 4 write chains of nested views (depth 1-4), all source values for narrow chains.  "
        "distinct_nontrivial = seeds whose probe completed + designs compared.")
ASSUMPTIONS = ["the lattice is the one stated in C13 (reflexive; Port[T,d] < Signal[T]; Q[X[n]] < Q[BitVector[n]], Q[X], Q[BitVector])"]
REQUIRE = {'quick': {'identity': 5000, 'lattice': 100000, 'views': 5000, 'view_designs_compared': 40},
           'thorough': {'identity': 100000, 'lattice': 2000000, 'views': 100000, 'view_designs_compared': 500}}


def gen_cases(tier, seed):
    n = 160 if tier == 'quick' else 3000
    cases = [{'k': 'probe', 'seed': seed * 50021 + i, 'n': 60 + (i % 5) * 15} for i in range(n)]
    m = 64 if tier == 'quick' else 800
    cases += [{'k': 'views', 'seed': seed * 50023 + i} for i in range(m)]
    return cases


def run_probe(case):
    env = dict(os.environ)
    env['PYTHONHASHSEED'] = str(case['seed'] % 7)
    env['PYTHONDONTWRITEBYTECODE'] = '1'
    p = subprocess.run([PY, os.path.join(VERIF, 'vlib', 'c13_probe.py'), REPO, str(case['seed']), str(case['n'])],
                       stdout=subprocess.PIPE, stderr=subprocess.PIPE, timeout=300, env=env)
    if p.returncode != 0:
        return result(inconclusive=f"probe crashed: {p.stderr.decode(errors='replace')[-600:]}", cnt={'probe_crashes': 1})
    out = json.loads(p.stdout.decode().strip().splitlines()[-1])
    viol = [violation(m, d + f" (creation order seed {case['seed']})") for m, d in out['viol'][:6]]
    cnt = Counter(out['cnt'])
    cnt['fresh_interpreters'] += 1
    sample = {'seed': case['seed'], 'requests': case['n'], 'distinct_classes': out['nspecs'], 'queries': out['cnt']} if case['seed'] % 40 == 0 else None
    return result(sig=digest('probe', case['seed']) if not viol else None, viol=viol, cnt=dict(cnt), sample=sample)


def rand_chain(rnd, W, max_depth=4, for_write=False):
    """returns (source suffix, lo, hi, final_kind) ; absolute bit range [hi:lo] of the root"""
    lo, hi = 0, W - 1
    s = ''
    kind = 'vec'
    for _ in range(rnd.randint(1, max_depth)):
        cw = hi - lo + 1
        ops = ['slice', 'slice', 'view'] + (['index'] if cw > 1 else []) + (['msb', 'lsb'] if cw > 2 and not for_write else [])
        op = rnd.choice(ops)
        if op == 'slice':
            a = rnd.randrange(cw)
            b = rnd.randrange(a + 1)
            s += f"[{a}:{b}]"
            hi, lo = lo + a, lo + b
        elif op == 'view':
            s += '.' + rnd.choice(['unsigned', 'signed', 'bitvector'])
        elif op == 'msb':
            n = rnd.randint(1, cw - 1)
            s += f".msb({n})"
            lo = hi - n + 1
        elif op == 'lsb':
            n = rnd.randint(1, cw - 1)
            s += f".lsb({n})"
            hi = lo + n - 1
        else:
            i = rnd.randrange(cw)
            s += f"[{i}]"
            hi = lo = lo + i
            kind = 'bit'
            break
    return s, lo, hi, kind


_n = [0]


def run_views(case):
    rnd = random.Random(case['seed'])
    cnt = Counter()
    viol = []
    W = rnd.choice([6, 8, 10, 12])
    rk = rnd.choice(['BitVector', 'Unsigned', 'Signed'])
    _n[0] += 1
    cname = f"VW{_n[0]}"
    reads = [rand_chain(rnd, W) for _ in range(8)]
    writes = [rand_chain(rnd, W, for_write=True) for _ in range(4)]
    L = [pg.HEADER, f"class {cname}(Entity):", "    clk = Port.input(Bit)", f"    a = Port.input({rk}[{W}])",
         f"    x = Port.input(BitVector[{W}])", f"    t = Port.output({rk}[{W}], default=Null)"]
    for i, (s, lo, hi, kind) in enumerate(reads):
        L.append(f"    r{i} = Port.output({'Bit' if kind == 'bit' else f'BitVector[{hi - lo + 1}]'})")
    L.append("    #PLOCAL_PORTS#")
    L += ["    def architecture(self):", "        loc = Signal[" + f"{rk}[{W}]](Null, name='loc')",
          "        @std.concurrent", "        def logic():"]
    iter_reads = 0
    for i, (s, lo, hi, kind) in enumerate(reads):
        src = f"self.a{s}"
        if kind != 'bit' and rnd.random() < 0.35:
            # the elements obtained by iterating over the view alias the same root bits
            L.append(f"            for i{i}, b{i} in enumerate({src}):")
            L.append(f"                self.r{i}[i{i}] <<= b{i}")
            iter_reads += 1
            continue
        L.append(f"            self.r{i} <<= {src}" + ('' if kind == 'bit' else '.bitvector' if not s.endswith('.bitvector') else ''))
    cnt['iterated_view_reads'] += iter_reads
    L += ["        @std.sequential(std.Clock(self.clk))", "        def proc():"]
    # a Signal constructed inside the process from a run-time value: the object and all of its views denote the value just
    # assigned (not the value of the previous clock)
    plocal = [rand_chain(rnd, W) for _ in range(3)]
    L.append(f"            ploc = Signal[{rk}[{W}]](self.a, name='ploc')")
    for i, (s, lo, hi, kind) in enumerate(plocal):
        L.append(f"            self.pl{i} <<= ploc{s}" + ('' if kind == 'bit' else '.bitvector' if not s.endswith('.bitvector') else ''))
    for (s, lo, hi, kind) in writes:
        w = hi - lo + 1
        if kind == 'bit':
            L.append(f"            self.t{s} <<= self.x[{lo}]")
        elif rnd.random() < 0.3:
            L.append(f"            for j{lo}_{hi}, e{lo}_{hi} in enumerate(self.t{s}):")
            L.append(f"                e{lo}_{hi} <<= self.x[{lo} + j{lo}_{hi}]")
            cnt['iterated_view_writes'] += 1
        else:
            view = ''
            if s.endswith('.unsigned'):
                view = '.unsigned'
            elif s.endswith('.signed'):
                view = '.signed'
            elif s.endswith(']') and not ('.unsigned' in s or '.signed' in s or '.bitvector' in s) and rk != 'BitVector' and ':' not in s:
                view = ''
            L.append(f"            self.t{s} <<= self.x[{hi}:{lo}]{view}")
    src = '\n'.join(L) + '\n'
    src = src.replace("    #PLOCAL_PORTS#\n", ''.join(f"    pl{i} = Port.output({'Bit' if kind == 'bit' else f'BitVector[{hi - lo + 1}]'})\n"
                                                    for i, (s, lo, hi, kind) in enumerate(plocal)))
    mod = load_source(src, 'c13')
    try:
        try:
            comp = compile_top(getattr(mod, cname))
        except Rejected as r:
            cnt['views_rejected'] += 1
            cnt['views_rejected:' + r.msg[:40]] += 1
            return result(cnt=dict(cnt))
        try:
            sim = comp.sim(init={'clk': 0, 'a': 0, 'x': 0})
        except Unsupported:
            return result(cnt={'vsim_unsupported': 1}, inconclusive='vsim unsupported')
        tmodel = 0
        vals = list(range(1 << W)) if W <= 8 else [0, (1 << W) - 1] + [rnd.randrange(1 << W) for _ in range(200)]
        for av in vals:
            xv = rnd.randrange(1 << W)
            sim.set('a', av)
            sim.set('x', xv)
            sim.settle()
            sim.clock()
            for i, (s, lo, hi, kind) in enumerate(reads):
                want = (av >> lo) & ((1 << (hi - lo + 1)) - 1)
                got = sim.get(f"r{i}")
                cnt['comparisons'] += 1
                if got.__class__ is Meta or got != want:
                    viol.append(violation('view-reads-wrong-bits', f"a{s} of {rk}[{W}] denotes bits [{hi}:{lo}] of a; a={av:#x}: emitted logic "
                                          f"gives {fmt(got)}, expected {want:#x}", source=src, vhdl=comp.text))
                    return result(viol=viol, cnt=dict(cnt))
            for i, (s, lo, hi, kind) in enumerate(plocal):
                want = (av >> lo) & ((1 << (hi - lo + 1)) - 1)
                got = sim.get(f"pl{i}")
                cnt['comparisons'] += 1
                if got.__class__ is Meta or got != want:
                    viol.append(violation('view-of-process-local-signal', f"ploc = Signal(a) inside the process, then ploc{s} denotes bits [{hi}:{lo}] of "
                                          f"the value just assigned; a={av:#x}: registered output {fmt(got)}, expected {want:#x}", source=src, vhdl=comp.text))
                    return result(viol=viol, cnt=dict(cnt))
            for (s, lo, hi, kind) in writes:
                m = ((1 << (hi - lo + 1)) - 1) << lo
                tmodel = (tmodel & ~m) | (xv & m)
            got = sim.get('t')
            cnt['comparisons'] += 1
            if got.__class__ is Meta or got != tmodel:
                viol.append(violation('view-writes-wrong-bits', f"writes through {[w[0] for w in writes]} (bit ranges {[(w[2], w[1]) for w in writes]}) "
                                      f"with x={xv:#x}: t holds {fmt(got)}, expected {tmodel:#x}", source=src, vhdl=comp.text))
                return result(viol=viol, cnt=dict(cnt))
        cnt['view_designs_compared'] += 1
        sample = {'reads': [r[0] for r in reads], 'writes': [w[0] for w in writes], 'root': f"{rk}[{W}]"} if case['seed'] % 25 == 0 else None
        return result(sig=digest('views', case['seed']), cnt=dict(cnt), sample=sample)
    finally:
        unload(mod)


def run_case(case):
    if case['k'] == 'probe':
        return run_probe(case)
    return run_views(case)
