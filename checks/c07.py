"""C07  One driver per signal: conflicts rejected, accepted designs conflict-free.

A placement generator puts writers and readers of one target object into contexts; the expected
verdict is known by construction from the property statement:
   * a signal / output port (or any slice or element of it) written from more than one of
     {sequential context A, sequential context B, concurrent context, always block of A, instance
     output #1, instance output #2 (same or other instance)}            -> must be rejected
   * an input port written anywhere                                     -> must be rejected
   * a variable or local intermediate value used by more than one context -> must be rejected
   * exactly one writer (any number of readers of a signal)            -> may be accepted
Accepted designs are elaborated by vsim, whose driver-ownership analysis (per signal bit, grouped by
process / concurrent block / instance) and variable-scope rule must report nothing."""
import random
import itertools
from collections import Counter
from vlib import progen as pg
from vlib.harness import result, digest, violation, load_source, unload, compile_top, Rejected
from vlib.vsim import Unsupported, ElabError
from vlib.vparse import VhdlSyntaxError

PID = 'C07'
RULE = ("target in {output port, local signal, input port, variable, local intermediate}; writer/reader sites in "
        "{seq A, seq B, concurrent, always block of A, output of instance 1, second output of instance 1, output of "
        "instance 2, output of a same-named class with reversed port directions}; write shapes {whole, slice, element, run-time "
        "element, typed view, via helper function, ^= push, .next, inline VHDL, nested inline VHDL}; optional always-expression reader; all single sites, all ordered pairs of sites x shape pairs (quick: sampled), sampled triples.  "
        "distinct_nontrivial = distinct (target, site/shape multiset) with a decided verdict.")
ASSUMPTIONS = ["driver sets are computed by vsim's elaborator from the emitted text (process / concurrent block marker "
               "comments / instance paths)"]
REQUIRE = {'quick': {'must_reject_rejected': 300, 'accepted_checked': 100},
           'thorough': {'must_reject_rejected': 3000, 'accepted_checked': 500}}

SITES = ['A', 'B', 'C', 'alwaysA', 'inst1', 'inst1b', 'inst2', 'instR']
SHAPES = ['whole', 'slice', 'elem', 'rtelem', 'view', 'helper', 'push', 'next', 'inline', 'inline_nested']
TARGETS = ['outport', 'signal', 'inport', 'variable', 'temp']


def gen_cases(tier, seed):
    rnd = random.Random(seed)
    cases = []
    for tgt in TARGETS:
        # single writers (+ optional readers elsewhere)
        for s in SITES:
            for sh in SHAPES:
                for readers in ([], ['B'], ['C'], ['A', 'C']):
                    cases.append({'tgt': tgt, 'w': [[s, sh]], 'r': readers})
        pairs = []
        for s1, s2 in itertools.combinations_with_replacement(SITES, 2):
            for sh1 in SHAPES:
                for sh2 in SHAPES:
                    pairs.append({'tgt': tgt, 'w': [[s1, sh1], [s2, sh2]], 'r': rnd.choice([[], ['C'], ['B']])})
        if tier == 'quick':
            rnd.shuffle(pairs)
            pairs = [c for c in pairs if all(applicable(c['tgt'], w[0], w[1]) for w in c['w'])][:400]
        cases += pairs
        for _ in range(40 if tier == 'quick' else 600):
            w = [[rnd.choice(SITES), rnd.choice(SHAPES)] for _ in range(3)]
            cases.append({'tgt': tgt, 'w': w, 'r': rnd.choice([[], ['C'], ['A']])})
    cases = [c for c in cases if all(applicable(c['tgt'], w[0], w[1]) for w in c['w'])]
    for c in cases:
        # contexts are built with the std.sequential wrapper or with the core cohdl.sequential_context
        c['style'] = {'A': rnd.choice(['std', 'core']) if not any(w[0] == 'alwaysA' for w in c['w']) else 'std',
                      'B': rnd.choice(['std', 'core'])}
        # an extra observer in context A: an always *expression* with a run-time indexed read combined with another operand
        # (its index intermediate must be turned into a signal together with the hoisted statement)
        c['rtidx_always'] = c['style']['A'] == 'std' and rnd.random() < 0.3
        c['always_expr_reader'] = c['style']['A'] == 'std' and c['tgt'] in ('signal', 'outport', 'variable') and rnd.random() < 0.15
    if tier == 'quick':
        rnd.shuffle(cases)
        cases = cases[:2400]
    return cases


_n = [0]


def applicable(tgt, site, shape):
    if site == 'instR':
        # output `v` of a second entity class that is also called Leaf but has the opposite port directions (instantiated after
        # a Leaf of the first kind)
        return tgt in ('outport', 'signal', 'inport') and shape == 'whole'
    if site in ('inst1', 'inst1b', 'inst2'):
        # instance outputs are connected to whole objects, slices or elements of signals
        return tgt in ('outport', 'signal', 'inport') and shape in ('whole', 'slice', 'elem')
    if tgt in ('variable', 'temp') and shape in ('inline', 'inline_nested'):
        return False
    if tgt in ('variable', 'temp'):
        if site in ('C', 'alwaysA'):
            return shape == 'whole'       # any use of a variable in a concurrent context
        return shape in ('whole', 'slice', 'elem', 'rtelem', 'helper') if tgt == 'variable' else shape == 'whole'
    if shape == 'push' and site in ('C', 'alwaysA'):
        return False
    if shape in ('inline', 'inline_nested') and site == 'alwaysA':
        return False
    return True


def build(case):
    tgt = case['tgt']
    writers = [tuple(w) for w in case['w']]
    for s, sh in writers:
        if not applicable(tgt, s, sh):
            return None
    _n[0] += 1
    cname = f"DR{_n[0]}"
    T = {'outport': 'self.t', 'inport': 'self.t', 'signal': 't', 'variable': 't', 'temp': 't'}[tgt]
    lines = {'A': [], 'B': [], 'C': [], 'alwaysA': []}
    arch = []
    insts = {}
    helper_needed = False
    inline_needed = False
    rev = 0
    for s, sh in writers:
        if s == 'instR':
            rev += 1
            continue
        if s.startswith('inst'):
            actual = {'whole': T, 'slice': f"{T}[1:0]", 'elem': f"{T}[2]"}[sh]
            key = 'inst2' if s == 'inst2' else 'inst1'
            insts.setdefault(key, {})
            port = 'o2' if s == 'inst1b' else 'o1'
            if sh == 'whole':
                port = 'w2' if s == 'inst1b' else 'w1'
            elif sh == 'slice':
                port = 's2' if s == 'inst1b' else 's1'
            if port in insts[key]:
                return None
            insts[key][port] = actual
            continue
        if tgt == 'temp':
            # a local intermediate value is defined in its first site and used in the others
            continue
        op = '@=' if tgt == 'variable' else '<<='
        if sh == 'whole':
            st = f"{T} {op} self.x"
        elif sh == 'slice':
            st = f"{T}[3:2] {op} self.x[1:0]"
        elif sh == 'elem':
            st = f"{T}[1] {op} self.a"
        elif sh == 'rtelem':
            st = f"{T}[self.d] {op} self.a"
        elif sh == 'view':
            st = f"{T}.unsigned {op} self.x.unsigned"
        elif sh == 'helper':
            helper_needed = True
            st = f"drive({T}, self.x)" if tgt != 'variable' else f"drivev({T}, self.x)"
        elif sh == 'inline':
            # inline VHDL: objects referenced without `!r` are written
            st = 'f"{vhdl:{' + T + '} <= {self.x!r};}"'
        elif sh == 'inline_nested':
            # an inline statement produced by a helper and expanded inside another inline fragment
            inline_needed = True
            st = 'f"{vhdl:{inl_drive(' + T + ', self.x)}}"'
        elif sh == 'push':
            st = f"{T} ^= self.x"
        else:
            st = f"{T}.next = self.x" if tgt != 'variable' else f"{T}.value = self.x"
        lines[s].append(st)
    if tgt == 'temp':
        sites = [s for s, _ in writers if not s.startswith('inst')]
        if not sites:
            return None
        lines[sites[0]].append("__DEFTEMP__")
        for s in sites[1:]:
            lines[s].append("self.obs <<= t")
    if case.get('rtidx_always'):
        lines['A'].append("pk = cohdl.always(self.x[self.d] & self.a)")
        lines['A'].append("self.obs3 <<= pk")
    readers = list(case['r'])
    if case.get('always_expr_reader') and tgt in ('signal', 'outport', 'variable'):
        # an `always` expression of context A reads the target: emitted as a concurrent statement outside the process
        lines['A'].append(f"pr = cohdl.always({T}[0] & self.a)")
        lines['A'].append("self.obs3 <<= pr")
    for r in readers:
        if tgt == 'temp':
            continue
        lines[r].append(f"self.obs{'2' if r == 'C' else ''} <<= {T}" if tgt != 'variable' or r != 'C' else f"self.obs2 <<= {T}")
    L = [pg.HEADER + "from cohdl import vhdl\n",
         "class Leaf(Entity):", "    i = Port.input(Bit)", "    v = Port.input(BitVector[4])",
         "    o1 = Port.output(Bit)", "    o2 = Port.output(Bit)", "    w1 = Port.output(BitVector[4])", "    w2 = Port.output(BitVector[4])",
         "    s1 = Port.output(BitVector[2])", "    s2 = Port.output(BitVector[2])",
         "    def architecture(self):", "        @std.concurrent", "        def logic():",
         "            self.o1 <<= self.i", "            self.o2 <<= ~self.i", "            self.w1 <<= self.v", "            self.w2 <<= ~self.v",
         "            self.s1 <<= self.v[1:0]", "            self.s2 <<= self.v[3:2]", "",
         "def make_rev():", "    class Leaf(Entity):", "        i = Port.input(Bit)", "        w1 = Port.input(BitVector[4])",
         "        v = Port.output(BitVector[4])", "        o1 = Port.output(Bit)", "        o2 = Port.output(Bit)", "        w2 = Port.output(BitVector[4])",
         "        s1 = Port.output(BitVector[2])", "        s2 = Port.output(BitVector[2])",
         "        def architecture(self):", "            @std.concurrent", "            def logic():",
         "                self.v <<= ~self.w1", "                self.o1 <<= self.i", "                self.o2 <<= ~self.i", "                self.w2 <<= self.w1",
         "                self.s1 <<= self.w1[1:0]", "                self.s2 <<= self.w1[3:2]", "    return Leaf", "", "LeafR = make_rev()", "",
         f"class {cname}(Entity):", "    clk = Port.input(Bit)", "    a = Port.input(Bit)", "    d = Port.input(Unsigned[2])",
         "    x = Port.input(BitVector[4])", "    obs = Port.output(BitVector[4], default=Null)", "    obs2 = Port.output(BitVector[4], default=Null)",
         "    obs3 = Port.output(Bit, default=Null)"]
    if tgt == 'outport':
        L.append("    t = Port.output(BitVector[4], default=Null)")
    elif tgt == 'inport':
        L.append("    t = Port.input(BitVector[4])")
    L.append("    def architecture(self):")
    if tgt == 'signal':
        L.append("        t = Signal[BitVector[4]](Null, name='t')")
    elif tgt == 'variable':
        L.append("        t = Variable[BitVector[4]](Null, name='t')")
    L += ["        dummy = Signal[Bit](name='dummy')", "        dw = Signal[BitVector[4]](name='dw')", "        ds = Signal[BitVector[2]](name='ds')"]
    for key, ports in insts.items():
        conn = {'o1': 'Signal[Bit]()', 'o2': 'Signal[Bit]()', 'w1': 'Signal[BitVector[4]]()', 'w2': 'Signal[BitVector[4]]()',
                's1': 'Signal[BitVector[2]]()', 's2': 'Signal[BitVector[2]]()'}
        conn.update(ports)
        L.append(f"        Leaf(i=self.a, v=self.x, " + ', '.join(f"{p}={a}" for p, a in conn.items()) + ")")
    if rev:
        if not insts:
            L.append("        Leaf(i=self.a, v=self.x, o1=Signal[Bit](), o2=Signal[Bit](), w1=Signal[BitVector[4]](), w2=Signal[BitVector[4]](), "
                     "s1=Signal[BitVector[2]](), s2=Signal[BitVector[2]]())")
        for k_ in range(rev):
            L.append(f"        tie{k_} = Signal[BitVector[4]]('0101', name='tie{k_}')")
            L.append(f"        LeafR(i=self.a, w1=tie{k_}, v={T}, o1=Signal[Bit](), o2=Signal[Bit](), w2=Signal[BitVector[4]](), "
                     "s1=Signal[BitVector[2]](), s2=Signal[BitVector[2]]())")
    if inline_needed:
        L += ["        def inl_drive(tg, val):", '            return f"{vhdl:{tg} <= {val!r};}"']
    if helper_needed:
        L += ["        def drive(tg, val):", "            tg <<= val", "        def drivev(tg, val):", "            tg @= val"]
    nl = "            nonlocal t" if tgt in ('signal', 'variable') else None

    def emit_fn(deco, name, body, always=None, core=False):
        if not body and not always:
            return
        if core:
            L.append("        @cohdl.sequential_context")
            L.append(f"        def {name}():")
            if nl and any(b.startswith('t ') or b.startswith('t.') for b in body):
                L.append(nl)
            L.append("            if cohdl.rising_edge(self.clk):")
            for b in body:
                if b == "__DEFTEMP__":
                    L.append("                t = (self.x | self.x)")
                    L.append("                self.obs <<= t")
                else:
                    L.append("                " + b)
            return
        L.append(f"        {deco}")
        L.append(f"        def {name}():")
        uses_bare = any(b.startswith('t ') or b.startswith('t.') for b in body + (always or []))
        if nl and uses_bare:
            L.append(nl)
        if always:
            L.append("            with cohdl.always:")
            for b in always:
                if b == "__DEFTEMP__":
                    L.append("                t = (self.x | self.x)")
                else:
                    L.append("                " + b)
        for b in body:
            if b == "__DEFTEMP__":
                L.append("            t = (self.x | self.x)")
                L.append("            self.obs <<= t")
            else:
                L.append("            " + b)
        if not body:
            L.append("            pass")
    style = case.get('style', {})
    emit_fn("@std.sequential(std.Clock(self.clk))", 'pa', lines['A'], lines['alwaysA'], core=style.get('A') == 'core' and not lines['alwaysA'])
    emit_fn("@std.sequential(std.Clock(self.clk))", 'pb', lines['B'], core=style.get('B') == 'core')
    emit_fn("@std.concurrent", 'cc', lines['C'])
    return '\n'.join(L) + '\n', cname


def expected(case):
    """must-reject reason or None"""
    tgt = case['tgt']
    wsites = [w[0] for w in case['w']]
    ctx_of = {'A': 'A', 'B': 'B', 'C': 'C', 'alwaysA': 'alwaysA', 'inst1': 'inst1', 'inst1b': 'inst1b', 'inst2': 'inst2', 'instR': 'instR'}
    if tgt == 'inport':
        return "input port written"
    if tgt in ('variable', 'temp'):
        used = set(ctx_of[s] for s in wsites) | set(case['r'] if tgt == 'variable' else [])
        if tgt == 'variable' and case.get('always_expr_reader'):
            return "variable read by an always expression (emitted outside the process)"
        # the always block belongs to context A in the source, but it is emitted outside the process
        if len(used) > 1:
            return f"{tgt} used by more than one context"
        if used & {'C', 'alwaysA'} and tgt == 'variable':
            return "variable used outside a process"
        return None
    drivers = set(ctx_of[s] for s in wsites)
    if len(drivers) > 1:
        return "driven from more than one context / instance output"
    return None


def run_case(case):
    cnt = Counter()
    viol = []
    b = build(case)
    if b is None:
        return result(cnt={'not_applicable_combination': 1})
    src, cname = b
    why = expected(case)
    key = digest(case['tgt'], sorted(map(tuple, case['w'])), sorted(case['r']), bool(case.get('always_expr_reader')))
    mod = load_source(src, 'c07')
    try:
        try:
            comp = compile_top(getattr(mod, cname))
        except Rejected as r:
            cnt['rejected'] += 1
            if why:
                cnt['must_reject_rejected'] += 1
            else:
                cnt['single_writer_rejected'] += 1
                cnt['single_writer_rejected:' + r.msg[:50].replace('\n', ' ')] += 1
            return result(sig=key, cnt=dict(cnt))
        cnt['accepted'] += 1
        try:
            sim = comp.sim()
        except (Unsupported,) as e:
            cnt['vsim_unsupported'] += 1
            return result(cnt=dict(cnt), inconclusive=f"vsim unsupported {e}")
        except (VhdlSyntaxError, ElabError) as e:
            viol.append(violation('emitted-text-not-analysable', f"{e}; case={case}", source=src, vhdl=comp.text))
            return result(viol=viol, cnt=dict(cnt))
        # (an identifier that is not visible where it is used is a process variable referenced from outside its process)
        drv = [i for i in sim.issues if i[0] in ('multiple-drivers', 'variable-outside-its-process', 'variable-outside-process',
                                                 'write-in-port', 'undeclared-identifier')]
        if any(w[0] == 'instR' for w in case['w']):
            # two entity classes with one name are emitted as two design units with the same name (the recorded C06 finding
            # "names are unique only inside their own entity"): instances cannot be bound reliably in the emitted text, so only
            # the compile-time verdict is judged for these cases
            drv = []
            cnt['same_named_entity_classes'] += 1
        for kind, det in sim.issues:
            cnt['vcheck:' + kind] += 1
        klass = '+'.join(sorted(set(w[0] for w in case['w'])))
        if why:
            viol.append(violation(f"accepted-driver-conflict:{case['tgt']}:{klass}",
                                  f"{why}, but the design was accepted; vsim driver analysis: {drv[:2] or 'no conflict visible in the text'}; case={case}",
                                  source=src, vhdl=comp.text))
        elif drv:
            viol.append(violation(f"emitted-driver-conflict:{drv[0][0]}", f"{drv[0][1]}; case={case}", source=src, vhdl=comp.text))
        else:
            cnt['accepted_checked'] += 1
        sample = {'case': case, 'verdict': 'accepted, one driver per signal'} if _n[0] % 150 == 1 and not viol else None
        return result(sig=key if not viol else None, viol=viol, cnt=dict(cnt), sample=sample)
    finally:
        unload(mod)
