"""C19  Fixed-point arithmetic is exact and resize follows the selected styles.

Oracle: exact rational arithmetic (fractions.Fraction).
 (a) Python level, exhaustive: for every source format [left:right] within the bound and every raw value:
     +, -, * with every value of every second format (result format must represent the exact result; UFixed
     subtraction wraps modulo the result range), resize to every target format x {TRUNCATE, ROUND} x {WRAP,
     SATURATE} (floor / ties-to-even, then wrap / clamp), construction from int / float / Signed / Unsigned /
     other formats, equality with numbers.
 (b) emitted logic: the same operations on run-time operands in compiled wrappers executed by vsim over all
     raw values, compared with the rational reference (sampled format pairs)."""
import random
import itertools
from fractions import Fraction as F
from collections import Counter
from vlib import progen as pg
from vlib.harness import result, digest, violation, load_source, unload, compile_top, Rejected, repo_on_path
from vlib.vsim import Meta, Unsupported, fmt

PID = 'C19'
RULE = ("formats: left in -2..3 (thorough -3..4), right in -3..2 (thorough -4..3), width 1..4 (thorough 1..6); Python level: "
        "all source formats x all raw values x all target formats x 4 style combinations (resize), all format pairs x all value "
        "pairs (+ - *, quick: width <= 3 pairs), constructions; emitted logic: sampled (source, second/target, styles) "
        "configurations over all raw values.  distinct_nontrivial = distinct (operation, source format, other format, styles) "
        "whose every value was compared.")
ASSUMPTIONS = ["SFixed/UFixed [left:right] with raw integer r represents r * 2^right", "vsim executes the emitted VHDL faithfully"]
REQUIRE = {'quick': {'py_comparisons': 40000, 'rt_comparisons': 3000}, 'thorough': {'py_comparisons': 2000000, 'rt_comparisons': 50000}}
_n = [0]


def formats(tier):
    if tier == 'quick':
        return [(l, r) for l in range(-2, 4) for r in range(-3, 3) if 1 <= l - r + 1 <= 4]
    return [(l, r) for l in range(-3, 5) for r in range(-4, 4) if 1 <= l - r + 1 <= 6]


def gen_cases(tier, seed):
    cases = []
    for signed in (True, False):
        for (l, r) in formats(tier):
            cases.append({'k': 'py', 's': signed, 'l': l, 'r': r, 'tier': tier})
    rnd = random.Random(seed)
    fs = formats(tier)
    for i in range(60 if tier == 'quick' else 900):
        a, b = rnd.choice(fs), rnd.choice(fs)
        cases.append({'k': 'rt', 's': rnd.random() < 0.5, 'a': list(a), 'b': list(b), 'rs': rnd.choice(['TRUNCATE', 'ROUND']),
                      'os': rnd.choice(['WRAP', 'SATURATE']), 'seed': seed * 13 + i})
    return cases


_std = None


def S():
    global _std
    if _std is None:
        repo_on_path()
        from cohdl import std, Signed, Unsigned
        _std = (std, Signed, Unsigned)
    return _std


def mk(signed, l, r, raw):
    std, Signed, Unsigned = S()
    w = l - r + 1
    return (std.SFixed if signed else std.UFixed)[l:r](raw=(Signed if signed else Unsigned)[w](raw))


def num(x):
    return F(x._val.to_int()) * F(2) ** x.right()


def raws(signed, w):
    return range(-(1 << (w - 1)), 1 << (w - 1)) if signed else range(1 << w)


def ref_resize(x, signed, l, r, rs, os_):
    q = x / F(2) ** r
    fl = q.numerator // q.denominator
    if rs == 'TRUNCATE':
        n = fl
    else:
        fr = q - fl
        n = fl + (1 if fr > F(1, 2) or (fr == F(1, 2) and fl % 2) else 0)      # ties to even
    w = l - r + 1
    lo, hi = (-(1 << (w - 1)), (1 << (w - 1)) - 1) if signed else (0, (1 << w) - 1)
    if os_ == 'WRAP':
        n = (n - lo) % (1 << w) + lo
    else:
        n = min(max(n, lo), hi)
    return F(n) * F(2) ** r


def rel(a, b):
    return '<' if a < b else '=' if a == b else '>'


def run_py(case):
    std, Signed, Unsigned = S()
    RS, OS = std.FixedRoundStyle, std.FixedOverflowStyle
    signed, l, r = case['s'], case['l'], case['r']
    w = l - r + 1
    fs = formats(case['tier'])
    cnt = Counter()
    viol = []
    seen = set()
    sigs = []
    kind = 'S' if signed else 'U'

    def report(mech, det):
        if mech not in seen:
            seen.add(mech)
            viol.append(violation(mech, det))
    xs = [(raw, mk(signed, l, r, raw)) for raw in raws(signed, w)]
    # ---- resize
    for (tl, tr) in fs:
        for rs in ('TRUNCATE', 'ROUND'):
            for os_ in ('WRAP', 'SATURATE'):
                ok = True
                for raw, x in xs:
                    try:
                        # the three documented spellings of the same operation
                        form = (tl + tr + raw) % 3
                        if form == 0:
                            y = x.resize(tl, tr, getattr(RS, rs), getattr(OS, os_))
                        elif form == 1:
                            y = x.resize[tl:tr](getattr(RS, rs), getattr(OS, os_))
                        else:
                            y = x.resize[tl:tr](round_style=getattr(RS, rs), overflow_style=getattr(OS, os_))
                    except (KeyboardInterrupt, SystemExit):
                        raise
                    except BaseException as e:      # noqa
                        cnt['resize_raised'] += 1
                        ok = False
                        if tl < r or l < tr:
                            cls = 'disjoint-formats'              # source and target share no bit position
                        elif tl == tr and signed and rs == 'ROUND':
                            cls = 'S:one-bit-target:ROUND'
                        else:
                            cls = f"{kind}:{rs}:{os_}:L{rel(tl, l)}:R{rel(tr, r)}"
                        report(f"resize-raises:{cls}", f"{kind}Fixed[{l}:{r}].resize({tl}, {tr}, {rs}, {os_}) raised {type(e).__name__}: {str(e)[:100]}")
                        break
                    want = ref_resize(num(x), signed, tl, tr, rs, os_)
                    cnt['py_comparisons'] += 1
                    if num(y) != want or (y.left(), y.right()) != (tl, tr):
                        ok = False
                        report(f"resize:{kind}:{rs}:{os_}:L{rel(tl, l)}:R{rel(tr, r)}",
                               f"{kind}Fixed[{l}:{r}] raw {raw} (= {num(x)}) resized to [{tl}:{tr}] {rs}/{os_} gives {num(y)} "
                               f"in [{y.left()}:{y.right()}], exact rule gives {want}")
                if ok:
                    sigs.append(digest('resize', signed, l, r, tl, tr, rs, os_))
    # ---- arithmetic with every second format
    for (bl, br) in fs:
        bw = bl - br + 1
        if case['tier'] == 'quick' and (w > 3 or bw > 3):
            continue
        ys = [mk(signed, bl, br, rb) for rb in raws(signed, bw)]
        for op in ('+', '-', '*'):
            ok = True
            for raw, x in xs:
                for y in ys:
                    try:
                        z = x + y if op == '+' else x - y if op == '-' else x * y
                    except (KeyboardInterrupt, SystemExit):
                        raise
                    except BaseException as e:      # noqa
                        cnt['arith_raised'] += 1
                        ok = False
                        break
                    exact = num(x) + num(y) if op == '+' else num(x) - num(y) if op == '-' else num(x) * num(y)
                    cnt['py_comparisons'] += 1
                    got = num(z)
                    if not signed and op == '-' and exact < 0:
                        span = F(2) ** (z.left() + 1)
                        exact = exact % span          # UFixed subtraction wraps modulo the result range
                    if got != exact:
                        ok = False
                        report(f"arith:{kind}:{op}:{'same-format' if (l, r) == (bl, br) else 'left' + rel(l, bl) + ':right' + rel(r, br)}",
                               f"{kind}Fixed[{l}:{r}]({num(x)}) {op} {kind}Fixed[{bl}:{br}]({num(y)}) = {got} in [{z.left()}:{z.right()}], exact {exact}")
                if not ok:
                    break
            if ok:
                sigs.append(digest('arith', signed, l, r, bl, br, op))
    # ---- construction and equality (a representable value must be constructible: an exception is a violation too)
    T = (std.SFixed if signed else std.UFixed)[l:r]

    def attempt(what, fn):
        cnt['py_comparisons'] += 1
        try:
            return fn()
        except (KeyboardInterrupt, SystemExit):
            raise
        except BaseException as e:      # noqa
            cnt['construct_raised'] += 1
            report(f"construct-raises:{kind}:{what}", f"{kind}Fixed[{l}:{r}]: {what} raised {type(e).__name__}: {str(e)[:120]}")
            return None
    for raw, x in xs:
        v = num(x)
        if v.denominator == 1:
            z = attempt('from-int', lambda: T(int(v)))
            if z is not None and num(z) != v:
                report(f"construct:{kind}:from-int", f"{kind}Fixed[{l}:{r}]({int(v)}) represents {num(z)}")
            e = attempt('equality-int', lambda: bool(x == int(v)))
            if e is False:
                report(f"equality:{kind}:int", f"{kind}Fixed[{l}:{r}] with value {v} does not compare equal to {int(v)}")
        z = attempt('from-float', lambda: T(float(v)))
        if z is not None and num(z) != v:
            report(f"construct:{kind}:from-float", f"{kind}Fixed[{l}:{r}]({float(v)}) represents {num(z)}")
        e = attempt('equality-float', lambda: bool(x == float(v)))
        if e is False:
            report(f"equality:{kind}:float", f"{kind}Fixed[{l}:{r}] with value {v} does not compare equal to {float(v)}")
        for (tl, tr) in fs:
            if tl >= l and tr <= r:
                TT = (std.SFixed if signed else std.UFixed)[tl:tr]
                z = attempt('from-other-format', lambda: TT(x))
                if z is not None and num(z) != v:
                    report(f"construct:{kind}:from-other-format", f"{kind}Fixed[{tl}:{tr}]({kind}Fixed[{l}:{r}] = {v}) represents {num(z)}")
    if r <= 0:
        # construction from Signed / Unsigned integers that fit into the integer part
        for iw in (1, 2, 3):
            if (l + 1 < iw) if signed else (l + 1 < iw):
                continue
            for iv in raws(signed, iw):
                src = (Signed if signed else Unsigned)[iw](iv)
                z = attempt('from-' + ('Signed' if signed else 'Unsigned'), lambda: T(src))
                if z is not None and num(z) != iv:
                    report(f"construct:{kind}:from-{'Signed' if signed else 'Unsigned'}", f"{kind}Fixed[{l}:{r}]({src!r}) represents {num(z)}")
    return result(sig=sigs or None, viol=viol, cnt=dict(cnt),
                  sample={'format': f"{kind}Fixed[{l}:{r}]", 'values': len(xs), 'ok_groups': len(sigs)} if (l + r) % 3 == 0 else None)


def run_rt(case):
    signed = case['s']
    (l, r), (bl, br) = case['a'], case['b']
    w, bw = l - r + 1, bl - br + 1
    rs, os_ = case['rs'], case['os']
    kind = 'S' if signed else 'U'
    FX = 'SFixed' if signed else 'UFixed'
    RAW = 'Signed' if signed else 'Unsigned'
    cnt = Counter()
    _n[0] += 1
    cname = f"FX{_n[0]}"
    # result formats as documented: + - : [max(left)+1 : min(right)], * : [la+lb+1 : ra+rb]
    al, ar = max(l, bl) + 1, min(r, br)
    ml, mr = l + bl + 1, r + br
    src = pg.HEADER + f"""
class {cname}(Entity):
    a = Port.input({RAW}[{w}])
    b = Port.input({RAW}[{bw}])
    o_add = Port.output(BitVector[{al - ar + 1}])
    o_sub = Port.output(BitVector[{al - ar + 1}])
    o_mul = Port.output(BitVector[{ml - mr + 1}])
    o_rsz = Port.output(BitVector[{bw}])
    def architecture(self):
        @std.concurrent
        def logic():
            x = std.{FX}[{l}:{r}](raw=self.a)
            y = std.{FX}[{bl}:{br}](raw=self.b)
            self.o_add <<= std.to_bits(x + y)
            self.o_sub <<= std.to_bits(x - y)
            self.o_mul <<= std.to_bits(x * y)
            self.o_rsz <<= std.to_bits(x.resize({bl}, {br}, std.FixedRoundStyle.{rs}, std.FixedOverflowStyle.{os_}))
"""
    mod = load_source(src, 'c19')
    try:
        try:
            comp = compile_top(getattr(mod, cname))
        except Rejected as r_:
            cnt['rt_rejected'] += 1
            cnt['rt_rejected:' + r_.msg[:50].replace('\n', ' ')] += 1
            # the same two classes as at Python level (known findings); any other rejection of this wrapper is a violation
            if bl < r or l < br:
                m = 'resize-raises:disjoint-formats'
            elif bl == br and signed and rs == 'ROUND':
                m = 'resize-raises:S:one-bit-target:ROUND'
            else:
                m = f"resize-raises:{kind}:{rs}:{os_}:L{rel(bl, l)}:R{rel(br, r)}"
            return result(viol=[violation(m, f"emitted logic: wrapper with {kind}Fixed[{l}:{r}].resize({bl}, {br}, {rs}, {os_}) is rejected: "
                                             f"{r_.etype}: {r_.msg[:120]}", source=src)], cnt=dict(cnt))
    finally:
        unload(mod)
    try:
        sim = comp.sim(init={'a': 0, 'b': 0})
    except Unsupported as u:
        return result(cnt={'vsim_unsupported': 1}, inconclusive=f"vsim unsupported: {u}")
    viol = []
    seen = set()

    def decode(bits, l_, r_):
        ww = l_ - r_ + 1
        n = bits - (1 << ww) if signed and (bits >> (ww - 1)) & 1 else bits
        return F(n) * F(2) ** r_
    for ra in raws(signed, w):
        for rb in raws(signed, bw):
            sim.set('a', ra & ((1 << w) - 1)); sim.set('b', rb & ((1 << bw) - 1))
            sim.settle()
            x, y = F(ra) * F(2) ** r, F(rb) * F(2) ** br
            checks = [('+', 'o_add', al, ar, x + y), ('-', 'o_sub', al, ar, x - y), ('*', 'o_mul', ml, mr, x * y)]
            for op, port, pl, pr, exact in checks:
                got = sim.get(port)
                cnt['rt_comparisons'] += 1
                if not signed and op == '-' and exact < 0:
                    exact = exact % (F(2) ** (pl + 1))
                if got.__class__ is Meta or decode(got, pl, pr) != exact:
                    m = f"arith:{kind}:{op}:{'same-format' if (l, r) == (bl, br) else 'left' + rel(l, bl) + ':right' + rel(r, br)}"
                    if m not in seen:
                        seen.add(m)
                        viol.append(violation(m, f"emitted logic: {kind}Fixed[{l}:{r}]({x}) {op} {kind}Fixed[{bl}:{br}]({y}) gives "
                                              f"{fmt(got)} in [{pl}:{pr}], exact {exact}", source=src))
            got = sim.get('o_rsz')
            want = ref_resize(x, signed, bl, br, rs, os_)
            cnt['rt_comparisons'] += 1
            if got.__class__ is Meta or decode(got, bl, br) != want:
                m = f"resize:{kind}:{rs}:{os_}:L{rel(bl, l)}:R{rel(br, r)}"
                if m not in seen:
                    seen.add(m)
                    viol.append(violation(m, f"emitted logic: {kind}Fixed[{l}:{r}] raw {ra} (= {x}) resized to [{bl}:{br}] {rs}/{os_} gives "
                                          f"{fmt(got)} (= {decode(got, bl, br) if got.__class__ is int else '?'}), exact rule gives {want}", source=src))
    return result(sig=digest('rt', case) if not viol else None, viol=viol, cnt=dict(cnt))


def run_case(case):
    if case['k'] == 'py':
        return run_py(case)
    return run_rt(case)
