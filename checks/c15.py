"""C15  SyncFlag and Mailbox hand over every event exactly once.

A compiled wrapper contains a producer and a consumer (two sequential contexts, or one for delay 0).
Per clock the test bench chooses: does the producer want to send (with which payload), does it issue a
`set` although it still sees the flag set (must have no effect), is the consumer willing to receive.
The design reports `sent` (a send was issued while the producer observed clear) and `got` (+payload).
An online automaton checks the recorded events:  got only while an event is in flight, payload
unchanged, no second send before the receive (the producer sees clear again only after the consumer
cleared), never two receives for one send.  Breadth-first closure over all schedules (all input
valuations in every joint state), random runs, and a bounded drain."""
import random
import itertools
from collections import Counter
from vlib import progen as pg
from vlib import explore
from vlib.harness import result, digest, violation, load_source, unload, compile_top, Rejected
from vlib.vsim import Unsupported, fmt

PID = 'C15'
RULE = ("configs: {SyncFlag, Mailbox[Unsigned[2]]} x (tx_delay, rx_delay) in {0..3}^2 (+ delay=k) x consumer style {plain if, "
        "coroutine receive(), async with, async with left by return in a helper, receive inside a std.Executor action, observe-twice} x producer style {plain, coroutine} x {two contexts, one context (delay 0)}; "
        "inputs per clock: want_send, force_set, can_recv, payload (all 32 valuations in every reached joint state up to a "
        "budget, then 3000 random clocks at several densities, then drain).  distinct_nontrivial = configs with >= 30 joint "
        "states and >= 20 delivered events.")
ASSUMPTIONS = ["vsim executes the emitted VHDL faithfully", "`sent`/`got` strobes are produced by the wrapper in the same "
               "branch that calls set()/send() resp. clear()/receive(), so they mark exactly the accepted operations"]
REQUIRE = {'quick': {'events_delivered': 3000, 'joint_states': 3000}, 'thorough': {'events_delivered': 100000, 'joint_states': 50000}}

_n = [0]


def gen_cases(tier, seed):
    rnd = random.Random(seed)
    cases = []
    delays = [(t, r) for t in range(4) for r in range(4)]
    for kind in ('flag', 'mbox'):
        for cstyle in ('plain', 'receive', 'with'):
            for pstyle in ('plain', 'coro'):
                ds = delays if tier == 'thorough' else rnd.sample(delays, 5) + [(0, 0)]
                for t, r in ds:
                    cases.append({'kind': kind, 'tx': t, 'rx': r, 'c': cstyle, 'p': pstyle, 'one_ctx': False, 'seed': seed * 7 + len(cases)})
        for k in (1, 2, 3):
            cases.append({'kind': kind, 'delay': k, 'c': 'plain', 'p': 'plain', 'one_ctx': False, 'seed': seed * 7 + len(cases)})
        # a consumer (and a producer) that looks at the flag twice in one clock before acting on it
        for t, r in ((1, 0), (2, 0), (3, 0), (0, 2), (2, 2), (0, 0)):
            for pstyle in ('plain', 'twice'):
                cases.append({'kind': kind, 'tx': t, 'rx': r, 'c': 'twice', 'p': pstyle, 'one_ctx': False, 'seed': seed * 7 + len(cases)})
        for t, r in ((0, 0), (1, 0), (0, 1), (2, 1), (1, 3)):
            for cstyle in ('withret', 'executor'):
                cases.append({'kind': kind, 'tx': t, 'rx': r, 'c': cstyle, 'p': 'plain' if t != 2 else 'coro', 'one_ctx': False, 'seed': seed * 7 + len(cases)})
    if tier == 'thorough':
        for c in cases:
            c['deep'] = True
        cases.append({'kind': kind, 'tx': 0, 'rx': 0, 'c': 'plain', 'p': 'plain', 'one_ctx': True, 'seed': seed * 7 + len(cases)})
    return cases


def source(cname, case):
    kind = case['kind']
    if 'delay' in case:
        kw = f"delay={case['delay']}"
    else:
        kw = f"tx_delay={case['tx']}, rx_delay={case['rx']}"
    obj = f"std.SyncFlag({kw})" if kind == 'flag' else f"std.Mailbox[Unsigned[2]]({kw})"
    send = "f.set()" if kind == 'flag' else "f.send(self.pin)"
    setagain = "f.set()" if kind == 'flag' else "f._flag.set()"
    data = "self.pin" if kind == 'flag' else None
    L = [pg.HEADER, f"class {cname}(Entity):", "    clk = Port.input(Bit)", "    rst = Port.input(Bit)",
         "    want_send = Port.input(Bit)", "    force = Port.input(Bit)", "    can_recv = Port.input(Bit)", "    pin = Port.input(Unsigned[2])",
         "    sent = Port.output(Bit, default=False)", "    got = Port.output(Bit, default=False)", "    dout = Port.output(Unsigned[2], default=0)",
         "    status = Port.output(Bit, default=False)", "    pstatus = Port.output(Bit, default=False)",
         "    def architecture(self):", f"        f = {obj}",
         "        ctx = std.SequentialContext(std.Clock(self.clk), std.Reset(self.rst))"]
    if kind == 'flag':
        # the payload travels beside the flag in a register written together with set()
        L.append("        payload = Signal[Unsigned[2]](0, name='payload')")
    prod_plain = ["            self.sent <<= False", "            if self.want_send:", "                if f.is_clear():",
                  f"                    {send}"] + (["                    payload.next = self.pin"] if kind == 'flag' else []) + \
                 ["                    self.sent <<= True", "                elif self.force:", f"                    {setagain}"]
    prod_coro = ["            self.sent <<= False", "            await cohdl.expr(self.want_send and f.is_clear())", f"            {send}"] + \
                (["            payload.next = self.pin"] if kind == 'flag' else []) + ["            self.sent <<= True"]
    rd = "payload" if kind == 'flag' else "f.data()"
    cons_plain = ["            self.got <<= False", "            if self.can_recv and f.is_set():", "                f.clear()",
                  f"                self.dout <<= {rd}", "                self.got <<= True"]
    if kind == 'flag':
        cons_recv = ["            self.got <<= False", "            await self.can_recv", "            await f.receive()",
                     f"            self.dout <<= {rd}", "            self.got <<= True"]
        cons_with = ["            self.got <<= False", "            await self.can_recv", "            async with f:",
                     f"                self.dout <<= {rd}", "                self.got <<= True"]
    else:
        cons_recv = ["            self.got <<= False", "            await self.can_recv", "            self.dout <<= await f.receive()",
                     "            self.got <<= True"]
        cons_with = cons_recv
    cons_twice = ["            self.got <<= False", "            st = f.is_set()", "            self.status <<= f.is_set()",
                  "            if self.can_recv and st:", "                f.clear()", f"                self.dout <<= {rd}", "                self.got <<= True"]
    prod_twice = ["            self.sent <<= False", "            free = f.is_clear()", "            self.pstatus <<= f.is_clear()",
                  "            if self.want_send and free:", f"                {send}"] + \
                 (["                payload.next = self.pin"] if kind == 'flag' else []) + ["                self.sent <<= True"]
    # `async with` inside a helper coroutine that leaves the block by `return` on some paths only (the exit handler must run
    # on the returning path and on the path that falls out of the block)
    pre = []
    if kind == 'flag':
        pre += ["        async def take():", "            async with f:", "                if payload[0]:", "                    return True",
                "                self.status <<= ~self.status", "            return False"]
        cons_withret = ["            self.got <<= False", "            await self.can_recv", "            odd = await take()",
                        f"            self.dout <<= {rd}", "            self.pstatus <<= odd", "            self.got <<= True"]
    else:
        pre += ["        async def take():", "            async with f._flag:", "                if f.data()[0]:", "                    return f.data()",
                "                self.status <<= ~self.status", "            return f.data()"]
        cons_withret = ["            self.got <<= False", "            await self.can_recv", "            self.dout <<= await take()", "            self.got <<= True"]
    # the receiving side runs inside the action of an `immediate_after` std.Executor of the consumer context: the first use of
    # the flag in that context happens while the executors of the context are converted
    if kind == 'flag':
        pre += ["        async def drain():", "            await f.receive()", f"            self.dout <<= {rd}"]
    else:
        pre += ["        async def drain():", "            self.dout <<= await f.receive()"]
    pre += ["        drain_executor = std.Executor.make_after(drain, None)"]
    cons_exec = ["            self.got <<= False", "            await self.can_recv", "            await drain_executor.exec()", "            self.got <<= True"]
    prod = {'plain': prod_plain, 'coro': prod_coro, 'twice': prod_twice}[case['p']]
    cons = {'plain': cons_plain, 'receive': cons_recv, 'with': cons_with, 'twice': cons_twice, 'withret': cons_withret, 'executor': cons_exec}[case['c']]
    if case['c'] == 'withret':
        L += pre[:6]
    elif case['c'] == 'executor':
        L += pre[6:]
    if case['one_ctx']:
        L += ["        @ctx", "        def both():"] + prod_plain + [c for c in cons_plain if 'self.got <<= False' not in c or True]
    else:
        L += ["        @ctx", f"        {'async ' if case['p'] == 'coro' else ''}def producer():"] + prod
        L += ["        @ctx", f"        {'async ' if case['c'] != 'plain' else ''}def consumer():"] + cons
    return '\n'.join(L) + '\n'


def v(x):
    return x if x.__class__ is int else None


class H(explore.Harness):
    def __init__(self, comp, case):
        super().__init__()
        self.comp, self.case = comp, case
        self.inputs = [dict(want_send=w, force=f, can_recv=c, pin=p) for w, f, c, p in itertools.product((0, 1), (0, 1), (0, 1), range(4))
                       if not (w == 0 and f == 1) and not (w == 0 and p != 0)]

    def build(self):
        sim = self.comp.sim(init={'clk': 0, 'rst': 1, 'want_send': 0, 'force': 0, 'can_recv': 0, 'pin': 0})
        sim.clock(n=2)
        sim.set('rst', 0)
        sim.settle()
        sim.events.clear()
        # model: payload in flight or None; a coroutine-style strobe is reported one clock after the operation,
        # which does not matter for the automaton (events are ordered, not timed)
        return sim, {'flight': None, 'delivered': 0, 'sent': 0}

    def model_key(self):
        return self.model['flight']

    def commands(self):
        return self.inputs

    def apply(self, cmd):
        sim, m = self.sim, self.model
        for k, x in cmd.items():
            sim.set(k, x)
        # the payload register of the design samples `pin` in the clock of the send
        pin_now = cmd['pin']
        sim.clock()
        got, sent = v(sim.get('got')), v(sim.get('sent'))
        if got is None or sent is None:
            return f"strobe is undefined (got={fmt(sim.get('got'))} sent={fmt(sim.get('sent'))})"
        # a receive reported in this clock refers to the older event: handle it first
        if got:
            if m['flight'] is None:
                return "the consumer observed the flag as set although no set/send is outstanding (event observed twice or spurious)"
            if v(sim.get('dout')) != m['flight'][0]:
                return f"payload changed on the way: sent {m['flight'][0]}, received {fmt(sim.get('dout'))}"
            m['flight'] = None
            m['delivered'] += 1
        if sent:
            if m['flight'] is not None:
                return "the producer observed the flag as clear and sent again before the consumer had received the previous event (event lost)"
            m['flight'] = (pin_now,)
            m['sent'] += 1
        return None


def run_case(case):
    cnt = Counter()
    rnd = random.Random(case['seed'])
    _n[0] += 1
    cname = f"SF{_n[0]}"
    src = source(cname, case)
    mod = load_source(src, 'c15')
    try:
        try:
            comp = compile_top(getattr(mod, cname))
        except Rejected as r:
            cnt['rejected'] += 1
            cnt['rejected:' + r.msg[:60].replace('\n', ' ')] += 1
            return result(cnt=dict(cnt))
    finally:
        unload(mod)
    try:
        h = H(comp, case)
        h.start()
    except Unsupported as u:
        return result(cnt={'vsim_unsupported': 1}, inconclusive=f"vsim unsupported: {u}")
    deep = bool(case.get('deep'))
    m, stats = explore.bfs(h, budget=40000 if deep else 5000, max_depth=40 if deep else 30)
    cnt['joint_states'] += stats['states']
    cnt['edges'] += stats['edges']
    cnt['closures_reached'] += int(stats.get('closed', False))
    delivered = 0
    if m is None:
        for dens in ((0.9, 0.9), (0.9, 0.2), (0.2, 0.9), (0.5, 0.5)):
            def choose(hh, cmds, r, dens=dens):
                w = int(r.random() < dens[0])
                return dict(want_send=w, force=int(w and r.random() < 0.5), can_recv=int(r.random() < dens[1]), pin=r.randrange(4) if w else 0)
            m = explore.random_run(h, rnd, 6000 if deep else 800, choose=choose)
            if m:
                break
            delivered += h.model['delivered']
            # bounded drain: stop sending, keep receiving
            for _ in range(40):
                mm = h.apply(dict(want_send=0, force=0, can_recv=1, pin=0))
                if mm:
                    m = mm + " (during drain)"
                    break
            if m:
                break
            if h.model['flight'] is not None:
                m = "an event issued by the producer was not delivered within 40 clocks of a willing consumer"
                break
    cnt['events_delivered'] += delivered
    viol = []
    if m:
        viol.append(violation(f"{case['kind']}-handover", f"{m}; config={ {k: x for k, x in case.items() if k != 'seed'} }", source=src, vhdl=comp.text))
    nontrivial = stats['states'] >= 30 and delivered >= 20
    sample = {'config': case, 'joint_states': stats['states'], 'delivered': delivered} if case['seed'] % 4 == 0 else None
    return result(sig=digest(case) if nontrivial and not viol else None, viol=viol, cnt=dict(cnt), sample=sample)
