#!/bin/bash
# usage: tools/round_one.sh <label> <pid>...   confirm /tmp/wt/<pid>/_mutant/<label> and run its own check's quick tier against it
# (own scratch worktrees per pid, so several can run in parallel)
label=$1; shift
cd "$(dirname "$0")/.."
for pid in "$@"; do
  WT=/tmp/wt/confirm_$pid LABELS=$label tools/confirm_mutants.sh $pid
  [ -d seeded/$pid-$label ] && WT=/tmp/wt/matrix_$pid ONLY=$pid-$label OUT=/tmp/wt/res_$pid-$label.tsv tools/mutant_matrix.sh quick
done
