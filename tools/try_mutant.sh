#!/bin/bash
# usage: tools/try_mutant.sh <seeded-name> <check> [tier] [seed]   runs one check against one seeded change in its own scratch worktree
name=$1; chk=$2; tier=${3:-quick}; seed=${4:-1}
cd "$(dirname "$0")/.."
WT=/tmp/wt/try_$name
git -C /repo worktree remove --force $WT 2>/dev/null; rm -rf $WT
git -C /repo worktree add --detach $WT HEAD >/dev/null 2>&1 || exit 2
trap 'git -C /repo worktree remove --force $WT >/dev/null 2>&1; rm -rf $WT' EXIT
git -C $WT apply $PWD/seeded/$name/patch.diff || { echo "patch does not apply"; exit 3; }
log=$(VERIF_REPO=$WT VERIF_NOEVIDENCE=1 VERIF_MAXPRINT=3 ./check $chk --tier $tier --seed $seed 2>&1); rc=$?
echo "$name $chk $tier seed=$seed rc=$rc viol=$(echo "$log" | grep -c '^VIOLATION') $(echo "$log" | grep -m1 -o 'mechanism=[^ ]*')"
echo "$log" | grep -E "^$chk (quick|thorough)|INCONCLUSIVE" | cut -c1-200
