#!/bin/bash
# usage: tools/sweep.sh <tier> "<seeds>" <checks...>    prints one line per run; evidence is not written
tier=$1; seeds=$2; shift 2
for c in "$@"; do for s in $seeds; do
  out=$(VERIF_NOEVIDENCE=1 ./check $c --tier $tier --seed $s 2>&1); rc=$?
  echo "$c seed=$s rc=$rc :: $(echo "$out" | grep -E "^$c (quick|thorough)" | cut -c1-160)"
  if [ $rc -ne 0 ]; then echo "$out" | grep -E "^VIOLATION|mechanism=|^INCONCLUSIVE" | cut -c1-400 | head -8; fi
done; done
