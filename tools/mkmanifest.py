#!/usr/bin/env python3
"""Regenerates MANIFEST.json from the table below (single place to edit)."""
import json, os
HERE = os.path.dirname(os.path.dirname(os.path.abspath(__file__)))
props = [json.loads(l) for l in open(os.path.join(HERE, 'properties.jsonl'))]

LEVEL_NOTE = ("Trusted base: vsim (own interpreter for the emitted VHDL subset, calibrated on the upstream corpus and "
              "numeric_std self-tests, not cross-checked against a real VHDL tool), the generators, and the oracle named "
              "in 'technique'. Verdict = held on the executions listed in the evidence file, nothing more.")

CLAIMS = {
 'C02': dict(technique="runtime monitoring: emitted VHDL executed by an instrumented interpreter (vsim) for all operand valuations, compared online with an independent value model (MV)",
             text="Exploration: every documented operator x operand-type pair (small widths exhaustively over all values, both concurrent and clocked placement, typed constant operands on either side) plus random depth-2/3 trees; the oracle observes every output after every valuation.",
             ref="2 C02"),
 'C01': dict(technique="runtime monitoring: emitted state machine executed by vsim against the same coroutine run by CPython with explicit clock yields; per-clock comparison of all ports over a joint-state exploration",
             text="Exploration: seeded coroutine programs (await/while/break/continue/return/sub-coroutines, marker statements), every input valuation in every reached joint state up to a budget plus random runs.",
             ref="2 C01"),
 'C03': dict(technique="runtime monitoring: emitted process executed by vsim against the same statements executed by CPython over reference signal/variable classes; per-clock comparison",
             text="Exploration: seeded sequential/concurrent bodies (signals, variables, pushes, slices, run-time indexed arrays, helper returns, if/match/for-break), joint-state exploration plus random runs.",
             ref="2 C03"),
 'C04': dict(technique="runtime monitoring: reset asserted in every explored state of generated designs under vsim, compared per clock (and between edges for async resets) with the property's reset rule applied to the CPython-executed reference",
             text="Exploration: generated plain and coroutine contexts x sync/async x both polarities x noreset/no-default objects x step_cond x on_reset routes; reset is an input bit of the joint-state exploration.",
             ref="2 C04"),
 'C05': dict(technique="runtime monitoring: full conversion matrix compiled by the real compiler; accepted designs executed by vsim over all source values and compared with the property's decision table (must-reject classes + value rule)",
             text="Exploration: source type x qualifier x target type x 22 assignment forms (incl. view targets, Null/Full merges, local init, port connections); exhaustive over source values for widths <=3/4.",
             ref="2 C05"),
 'C06': dict(technique="runtime monitoring: every emitted text is parsed, elaborated and statically checked by vsim's conformance checker (names, scopes, typing, modes, case/select completeness, sensitivity, drivers) over hostile naming / expression / control-flow workloads",
             text="Exploration: seeded hostile-name designs over 13 declaration kinds, all operator x type-pair expressions with run-time and constant operands, generated bodies and un-clocked processes; a differential re-run classifies enum-literal findings.",
             ref="2 C06"),
 'C07': dict(technique="runtime monitoring: placement generator with verdict known by construction; accepted designs elaborated by vsim, whose per-bit driver ownership analysis and variable-scope rule observe the emitted architecture",
             text="Exploration: target kind x writer/reader sites (two clocked contexts in std and core style, concurrent, always block, three instance outputs) x 8 write shapes; singles, pairs, sampled triples.",
             ref="2 C07"),
 'C10': dict(technique="runtime monitoring: differential against CPython - the same function object is executed natively and by CoHDL's tracer inside a context, results captured by a pyeval probe and compared structurally",
             text="Exploration: seeded signature x call-shape pairs (CPython's TypeError must be mirrored by a rejection) and seeded programs over closures, classes, operator fallbacks, containers and comprehensions.",
             ref="2 C10"),
 'C11': dict(technique="runtime monitoring: compilation histories replayed in fresh interpreters under several hash seeds; an offline checker compares the SHA-256 of every accepted output with the design's fresh-interpreter output",
             text="Exploration: all (rejected, accepted) and ordered (accepted, accepted) pairs over a pool of 17+ accepted / 17 rejected designs failing at every compiler stage, repetitions, reserved-name leakage, random sequences, hash seeds.",
             ref="2 C11"),
 'C14': dict(technique="runtime monitoring: compiled Fifo/Stack wrappers executed by vsim against deque/list models; online comparison per clock and an offline FIFO-order / occupancy checker over recorded push/pop events with unique ids",
             text="Exploration: capacities 2..8 (power of two and not), one-context closure over all legal command sequences (2-bit data), two-context runs over tx/rx delay settings with unique ids, both stack modes.",
             ref="2 C14"),
 'C15': dict(technique="runtime monitoring: two-process wrapper executed by vsim; an online exactly-once automaton over the recorded send/receive events (unique payloads) across all schedules of producer/consumer willingness",
             text="Exploration: SyncFlag and Mailbox x tx/rx delays 0..3 x consumer/producer styles; all 32 input valuations in every reached joint state (budget), random runs at four densities, bounded drain.",
             ref="2 C15"),
 'C16': dict(technique="runtime monitoring: compiled wrappers with marker outputs executed by vsim; per-clock monitors check closed-form timing specifications (resume clock, shift by n, run lengths, pulse spacing, saturating counter model)",
             text="Exploration: wait_for/Waiter n=0..20 constant and run-time, Durations, delay lines 0..6, counters, ClockDivider periods 2..9 x options (power-up vs reset), ToggleSignal durations 1..5 and run-time, debounce closure over input sequences.",
             ref="2 C16"),
 'C18': dict(technique="runtime monitoring: table of std helpers in compiled wrappers executed by vsim over all input values, compared online with one-line integer definitions; CRC checked against bitwise polynomial division",
             text="Exploration: 39 helpers x widths 1..13 / list lengths 1..6 / batch sizes x all input values (<=10 input bits) + constant-operand instances; BitwiseCrc 3 polynomials x 1..4 bits per step.",
             ref="2 C18"),
 'C19': dict(technique="runtime monitoring: exact-rational (fractions.Fraction) oracle observing every Python-level fixed-point operation and the vsim-simulated outputs of compiled wrappers over all raw values",
             text="Exploration: all source/target formats left -2..3 (thorough -3..4), right -3..2 (-4..3), width <=4 (<=6) x 4 style combinations x all raw values for resize; all format pairs x all value pairs for + - *; constructions and equality; sampled configurations in emitted logic.",
             ref="2 C19"),
 'C12': dict(technique="runtime monitoring: one generated description rendered as an instantiation tree and as inlined logic, both executed by vsim under identical input sequences with an online output comparator; parsed text checked against the generator's port and wiring tables",
             text="Exploration: random trees depth <=3, repeated templates, whole/slice/element/view actuals, instances inside contexts, derived entity classes, inout associations, shuffled keyword order; 68 (thorough 208) clocks per design; entity interface, template count, emission order and every port map compared with the declared tables.",
             ref="2 C12"),
 'C20': dict(technique="runtime monitoring: compiled register maps executed by vsim under a hostile AXI4-Lite master BFM; online per-clock protocol automata on the five channels, exactly-once accounting, prefix-consistency oracle against a register-map reference model for read data and hardware-visible storage, notification counting, exact read-back at quiescence",
             text="Exploration: random layouts (MemWord, Word, Register fields/flags/notifications, Array, nested RegFile, Memory x 4 mask modes x inline, Input/Output; gaps, non power-of-two and unaligned ranges) x master profiles (blocking, pipelined, AW-first, W-first, slow readies, random) with per-clock random valid/ready timing, partial strobes, unmapped addresses, reads racing writes.",
             ref="2 C20"),
 'C17': dict(technique="runtime monitoring: seeded type compositions compiled into round-trip entities executed by vsim over all bit patterns; an independent recursive layout calculator is the oracle for every leaf offset",
             text="Exploration: random compositions (arrays, nested/inherited/templated records, enums, fixed point, Serialized container, BitField) nesting <=3; all bit patterns for widths <=12; to_bits/from_bits identities and per-leaf offsets.",
             ref="2 C17"),
 'C13': dict(technique="runtime monitoring: fresh interpreter per creation order with post-hoc assertions on identity / issubclass / isinstance of the lazily created classes and on view write-through; nested views in emitted logic executed by vsim",
             text="Exploration: seeded creation orders (widths 1..40, arrays, 4 qualifiers, 3 directions) in fresh processes; random nested view chains as read sources and write targets of compiled entities.",
             ref="2 C13"),
 'C08': dict(technique="runtime monitoring: poison sanitizer in vsim (every compiler temporary is poisoned at the start of each process activation, reads are trapped) + independent path-enumeration oracle for must-reject placements",
             text="Exploration: every definition/use placement over small if/match/for-break skeletons incl. coroutine state crossings (small scope, exhaustive in thorough tier) and the C01/C03/C04 generators under the poison monitor.",
             ref="2 C08"),
 'C09': dict(technique="runtime monitoring: three-way differential between Python-level folding, simulated run-time logic and simulated folded literals",
             text="Exploration: all operators x type pairs x all values for small widths; disagreement in type, width or value between compile-time objects and executed emitted logic is a violation.",
             ref="2 C09"),
}
NOT_YET = "check not built yet (build in progress, see DESIGN.md section 5)"

m = {"version": 1,
     "setup_cmd": "true",
     "hooks": {"guard": "COHDL_VERIF", "enable": "no repository hooks are used; checks import /repo's working tree directly (sys.path[0]=/repo) in fresh worker processes",
               "baseline_off_cmd": "cd /repo && /venv/bin/python -m pytest -ra -q -p no:cacheprovider --timeout=900 --continue-on-collection-errors",
               "source_commits": [], "add_only": True},
     "engines": [{"name": "vsim", "path": "vlib/vsim.py", "serves_properties": sorted(CLAIMS), "kind_free_text": "instrumented interpreter + conformance checker for emitted VHDL"}],
     "checks": [], "not_applicable": []}
for p in props:
    pid = p['id']
    if pid in CLAIMS:
        c = CLAIMS[pid]
        m['checks'].append({"property_id": pid, "quick_cmd": f"./check {pid} --tier quick", "thorough_cmd": f"./check {pid} --tier thorough",
                            "evidence_file": f"/verif/evidence/{pid}.json", "replay_cmd_template": f"./check {pid} --replay {{path}}",
                            "engine": "vsim", "level_claimed": {"category": "exploration", "text": c['text'], "design_ref": c['ref']},
                            "level_note": LEVEL_NOTE, "technique": c['technique']})
    else:
        m['not_applicable'].append({"property_id": pid, "reason": NOT_YET})
json.dump(m, open(os.path.join(HERE, 'MANIFEST.json'), 'w'), indent=1)
print("claimed:", sorted(CLAIMS))
