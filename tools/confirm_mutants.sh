#!/bin/bash
# usage: confirm_mutants.sh C01 C03 ...   (takes /tmp/wt/<pid>/_mutant/{A,B}, confirms in a scratch worktree at /repo HEAD,
# copies confirmed ones to /verif/seeded/<pid>-<X>/)
# env: LABELS (default "A B"), SRCROOT (default /tmp/wt/ ; the source is $SRCROOT<pid>/_mutant/<label>)
set -u
LABELS=${LABELS:-A B}
SRCROOT=${SRCROOT:-/tmp/wt/}
WT=${WT:-/tmp/wt/confirm}
git -C /repo worktree remove --force $WT 2>/dev/null
git -C /repo worktree add -q --detach $WT HEAD || exit 1
for pid in "$@"; do
  for X in $LABELS; do
    src=$SRCROOT$pid/_mutant/$X
    [ -f $src/patch.diff ] || { echo "$pid-$X: no patch"; continue; }
    cd $WT && git checkout -q -- . && git clean -qfd
    rm -rf $WT/_mutant; mkdir -p $WT/_mutant; cp -r $src $WT/_mutant/$X
    # demo on clean tree
    ( cd $WT && timeout 600 /venv/bin/python _mutant/$X/demo.py >/tmp/wt/confirm_$pid$X.clean.log 2>&1 ); rc_clean=$?
    if ! git -C $WT apply --3way $src/patch.diff 2>/tmp/wt/confirm_apply.log; then echo "$pid-$X: patch does not apply: $(head -c 300 /tmp/wt/confirm_apply.log)"; continue; fi
    git -C $WT reset -q
    tests=$(cd $WT && /venv/bin/python -m pytest -q -p no:cacheprovider --timeout=900 --continue-on-collection-errors tests 2>&1 | tail -1)
    ( cd $WT && timeout 600 /venv/bin/python _mutant/$X/demo.py >/tmp/wt/confirm_$pid$X.mut.log 2>&1 ); rc_mut=$?
    git -C $WT diff -- cohdl > /tmp/wt/confirm_$pid$X.diff
    ok=no
    if [ $rc_clean -eq 0 ] && [ $rc_mut -ne 0 ] && echo "$tests" | grep -q "^66 passed"; then ok=yes; fi
    echo "$pid-$X: clean_rc=$rc_clean mutant_rc=$rc_mut tests='$tests' confirmed=$ok"
    if [ $ok = yes ]; then
      d=/verif/seeded/$pid-$X; mkdir -p $d
      cp /tmp/wt/confirm_$pid$X.diff $d/patch.diff
      cp $src/demo.py $d/demo.py; [ -f $src/design.py ] && cp $src/design.py $d/
      python3 - "$src/meta.json" "$d/meta.json" "$pid" "$tests" <<'PY'
import json,sys
m=json.load(open(sys.argv[1]))
out={'property':sys.argv[3],'summary':m.get('summary'),'needs':m.get('needs'),'files':m.get('files'),
     'author':'independent sub-agent given only the property text and a scratch worktree',
     'confirmed':{'base':'/repo HEAD at confirmation time (patch re-diffed against it)','suite_with_change':sys.argv[4],
                  'demo_on_clean_tree':'exit 0','demo_with_change':'non-zero exit',
                  'ran':['git apply --3way patch.diff','pytest tests (66 passed)','python _mutant/X/demo.py (fails)','git checkout; demo (passes)']}}
json.dump(out,open(sys.argv[2],'w'),indent=1)
PY
    fi
  done
done
cd /; git -C /repo worktree remove --force $WT
