#!/bin/bash
# usage: run_mutant.sh <seeded-dir-name> <check> [tier]   e.g. run_mutant.sh C01-A C01 quick
# applies the patch to /repo's working tree, runs the check, always restores /repo.
m=/verif/seeded/$1; chk=$2; tier=${3:-quick}
[ -z "$(git -C /repo status --porcelain)" ] || { echo "/repo not clean"; exit 3; }
git -C /repo apply $m/patch.diff 2>/dev/null || { echo "$1: patch does not apply (re-diff it against the current HEAD)"; exit 3; }
trap 'git -C /repo checkout -q -- . ' EXIT
cd /verif && VERIF_NOEVIDENCE=1 ./check $chk --tier $tier > /tmp/wt/mut_$1_$chk.log 2>&1
rc=$?
echo "$1 vs $chk ($tier): exit=$rc  $(grep -c '^VIOLATION' /tmp/wt/mut_$1_$chk.log) violation line(s); $(grep -m1 'mechanism=' /tmp/wt/mut_$1_$chk.log | cut -c1-200)"
exit 0
