#!/bin/bash
# usage: [ONLY='C??-[CD]'] [OUT=file] tools/mutant_matrix.sh [tier] [extra-check ...]
# Runs every seeded change against the check of its own property (plus the extra checks given) in a scratch
# worktree of /repo's HEAD (so /repo itself is not touched and background runs are not disturbed) and writes
# seeded/RESULTS.tsv:  change <TAB> check <TAB> exit <TAB> #violation-lines <TAB> first mechanism
tier=${1:-quick}; shift
extra="$@"
cd "$(dirname "$0")/.."
WT=${WT:-/tmp/wt/matrix}
git -C /repo worktree remove --force $WT 2>/dev/null
rm -rf $WT
git -C /repo worktree add --detach $WT HEAD >/dev/null 2>&1 || { echo "cannot create worktree"; exit 2; }
trap 'git -C /repo worktree remove --force $WT >/dev/null 2>&1; rm -rf $WT' EXIT
out=${OUT:-seeded/RESULTS.tsv}
printf "change\tcheck\texit\tviolation_lines\tfirst_mechanism\n" > $out
for d in seeded/${ONLY:-C??-?}; do
  name=$(basename $d); own=${name%-*}
  git -C $WT checkout -q -- . && git -C $WT clean -fdq
  if ! git -C $WT apply $PWD/$d/patch.diff 2>/dev/null; then
    printf "%s\t%s\t%s\t%s\t%s\n" $name - - - "patch does not apply to HEAD" >> $out; continue
  fi
  for c in $own $extra; do
    log=$(VERIF_REPO=$WT VERIF_NOEVIDENCE=1 VERIF_MAXPRINT=3 ./check $c --tier $tier 2>&1); rc=$?
    n=$(echo "$log" | grep -c "^VIOLATION")
    mech=$(echo "$log" | grep -m1 -o "mechanism=[^ ]*" | cut -d= -f2)
    printf "%s\t%s\t%s\t%s\t%s\n" $name $c $rc $n "$mech" >> $out
    echo "$name $c rc=$rc viol=$n $mech"
  done
done
